package c10

import (
	"testing"

	"deps.dev/util/resolve/verifh/internal/ev"
	"deps.dev/util/resolve/verifh/internal/gen"
	"deps.dev/util/semver"
	"pgregory.net/rapid"
)

// Wildcard patterns (1.x, 1.2.*, NuGet floating versions) are accepted by
// Parse in four systems, so the round trip is asked of them too.
func wildProp(sys semver.System) func(*rapid.T) {
	return func(t *rapid.T) {
		s := gen.WildcardPattern(sys).Draw(t, "v")
		c := verCase{System: sys.String(), V: s}
		rec.SetCase(c)
		obs, exp, in, norm := roundTripW(sys, s, true)
		if !in {
			rec.ExcludedDomain("rejected")
			return
		}
		rec.Eval(1)
		if v, err := sys.Parse(s); err == nil && v.IsWildcard() {
			rec.NonTrivial(sys.String() + "|" + s)
			rec.Class("wildcard-pattern")
			if norm && rec.WantSample() {
				rec.Sample(map[string]string{"system": sys.String(), "v": s, "canon": v.Canon(true)})
			}
		}
		if obs != "" {
			rec.Fail(t, c, obs, exp)
		}
	}
}

func TestWildcardRoundTrip(t *testing.T) {
	for _, sys := range []semver.System{semver.DefaultSystem, semver.NPM, semver.Cargo, semver.NuGet, semver.PyPI} {
		rec.Check(t, "roundtrip-wildcards/"+sys.String(), ev.N(3000, 200000), wildProp(sys))
	}
}
