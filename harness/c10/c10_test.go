// C10 — a version's canonical string denotes the same version.
package c10

import (
	"encoding/json"
	"fmt"
	"strings"
	"testing"

	"deps.dev/util/pypi"
	"deps.dev/util/resolve/verifh/internal/ev"
	"deps.dev/util/resolve/verifh/internal/gen"
	"deps.dev/util/resolve/verifh/internal/known"
	"deps.dev/util/semver"
	"pgregory.net/rapid"
)

var rec = ev.New("C10")
var kf *known.File

func TestMain(m *testing.M) {
	kf, _ = known.Load(ev.KnownFile())
	rec.Rule("versions of the nine systems from the DESIGN §6 grammars (RubyGems release-only for the round trip) plus neighbour-mutated pairs; oracle = round trip Parse(Canon(v)) compares equal to v and re-canonicalises to the identical string (both showBuild values), equal canonical strings imply compare-equal, pypi.CanonVersion agrees with Parse+Canon and is the identity on unparsable text; the same round trip on wildcard patterns in the four systems whose Parse accepts them (roundtrip-wildcards; non-trivial there: the version is a pattern). Non-trivial: Canon(v) differs from the input text (something was normalised). Distinct = distinct (check, system, input text).")
	rec.Assume("wildcard patterns accepted by Parse are round-tripped in the roundtrip-wildcards checks (four systems); the other checks leave them out")
	rec.Assume("RubyGems versions with a prerelease segment are outside the round-trip domain (stated in the property)")
	ev.Main(m, rec)
}

type verCase struct {
	System string `json:"system"`
	V      string `json:"v"`
	W      string `json:"w,omitempty"`
}

func hasGemPre(s string) bool {
	for _, c := range s {
		if c == '-' || (c >= 'a' && c <= 'z') || (c >= 'A' && c <= 'Z') {
			return true
		}
	}
	return false
}

// roundTrip returns the first violated clause or "".
func roundTrip(sys semver.System, s string) (obs, exp string, inDomain bool, normalised bool) {
	return roundTripW(sys, s, false)
}

func roundTripW(sys semver.System, s string, wildcards bool) (obs, exp string, inDomain bool, normalised bool) {
	if sys == semver.Maven && !gen.InMavenDomain(s) {
		return "", "", false, false
	}
	v, err := sys.Parse(s)
	if err != nil || v.IsWildcard() && !wildcards {
		return "", "", false, false
	}
	for _, showBuild := range []bool{true, false} {
		c := v.Canon(showBuild)
		if c != s {
			normalised = true
		}
		w, err := sys.Parse(c)
		if err != nil {
			return fmt.Sprintf("Canon(%v) of %q is %q, which does not parse: %v", showBuild, s, c, err), "canonical string parses in the same system", true, normalised
		}
		if r := v.Compare(w); r != 0 {
			return fmt.Sprintf("Canon(%v) of %q is %q, which compares %d against the original", showBuild, s, c, r), "compares equal", true, normalised
		}
		if r := w.Compare(v); r != 0 {
			return fmt.Sprintf("Canon(%v) of %q is %q; original compares %d against it", showBuild, s, c, -r), "compares equal", true, normalised
		}
		if c2 := w.Canon(showBuild); c2 != c {
			return fmt.Sprintf("Canon(%v) of %q is %q, canonicalising that again gives %q", showBuild, s, c, c2), "idempotent", true, normalised
		}
	}
	return "", "", true, normalised
}

func rtProp(sys semver.System, g *rapid.Generator[string]) func(*rapid.T) {
	return func(t *rapid.T) {
		s := g.Draw(t, "v")
		if rapid.IntRange(0, 9).Draw(t, "mutate") < 4 {
			s = gen.Neighbour(sys, s).Draw(t, "n")
		}
		c := verCase{System: sys.String(), V: s}
		rec.SetCase(c)
		if sys == semver.RubyGems && hasGemPre(s) {
			rec.ExcludedDomain("rubygems-prerelease")
			return
		}
		obs, exp, in, norm := roundTrip(sys, s)
		if !in {
			rec.ExcludedDomain("rejected-or-wildcard")
			return
		}
		rec.Eval(1)
		if norm {
			rec.NonTrivial(sys.String() + "|" + s)
			rec.Class("normalised")
			if rec.WantSample() {
				v, _ := sys.Parse(s)
				rec.Sample(map[string]string{"system": sys.String(), "v": s, "canon": v.Canon(true)})
			}
		}
		if obs != "" {
			rec.Fail(t, c, obs, exp)
		}
	}
}

func sameCanon(sys semver.System, a, b string) (obs string, in bool, hit bool) {
	if sys == semver.Maven && (!gen.InMavenDomain(a) || !gen.InMavenDomain(b)) {
		return "", false, false
	}
	va, err := sys.Parse(a)
	if err != nil || va.IsWildcard() {
		return "", false, false
	}
	vb, err := sys.Parse(b)
	if err != nil || vb.IsWildcard() {
		return "", false, false
	}
	for _, sb := range []bool{true, false} {
		if va.Canon(sb) == vb.Canon(sb) {
			hit = true
			if r := va.Compare(vb); r != 0 {
				return fmt.Sprintf("Canon(%v) of %q and %q are both %q but they compare %d", sb, a, b, va.Canon(sb), r), true, true
			}
		}
	}
	return "", true, hit
}

func pairProp(sys semver.System, g *rapid.Generator[string]) func(*rapid.T) {
	return func(t *rapid.T) {
		a := g.Draw(t, "a")
		b := gen.Neighbour(sys, a).Draw(t, "b")
		if rapid.IntRange(0, 3).Draw(t, "twice") == 0 {
			b = gen.Neighbour(sys, b).Draw(t, "b2")
		}
		c := verCase{System: sys.String(), V: a, W: b}
		rec.SetCase(c)
		if sys == semver.RubyGems && (hasGemPre(a) || hasGemPre(b)) {
			rec.ExcludedDomain("rubygems-prerelease")
			return
		}
		obs, in, hit := sameCanon(sys, a, b)
		if !in {
			rec.ExcludedDomain("rejected-or-wildcard")
			return
		}
		rec.Eval(1)
		if hit && a != b {
			rec.NonTrivial(sys.String() + "|" + a + "|" + b)
			rec.Class("same-canon-distinct-text")
			if rec.WantSample() {
				rec.Sample(c)
			}
		}
		if obs != "" {
			rec.Fail(t, c, obs, "equal canonical strings compare equal")
		}
	}
}

func canonVersionViolation(s string) string {
	got := pypi.CanonVersion(s)
	v, err := semver.PyPI.Parse(s)
	if err != nil {
		if got != s {
			return fmt.Sprintf("CanonVersion(%q)=%q although the text does not parse", s, got)
		}
		return ""
	}
	if want := v.Canon(true); got != want {
		return fmt.Sprintf("CanonVersion(%q)=%q but Parse+Canon gives %q", s, got, want)
	}
	return ""
}

func canonVersionProp(t *rapid.T) {
	var s string
	switch rapid.IntRange(0, 3).Draw(t, "kind") {
	case 0:
		s = rapid.StringMatching(`[0-9a-zA-Z.!+_ -]{0,12}`).Draw(t, "junk")
	default:
		s = gen.PEP440(false).Draw(t, "v")
		if rapid.Bool().Draw(t, "mut") {
			s = gen.Neighbour(semver.PyPI, s).Draw(t, "n")
		}
	}
	c := verCase{System: "PyPI", V: s}
	rec.SetCase(c)
	rec.Eval(1)
	if pypi.CanonVersion(s) != s {
		rec.NonTrivial(s)
		if rec.WantSample() {
			rec.Sample(map[string]string{"v": s, "CanonVersion": pypi.CanonVersion(s)})
		}
	}
	if obs := canonVersionViolation(s); obs != "" {
		rec.Fail(t, c, obs, "CanonVersion = Canon(Parse(v)), identity on unparsable text")
	}
}

func sysByName(name string) semver.System {
	for _, s := range gen.Systems {
		if s.String() == name {
			return s
		}
	}
	return semver.DefaultSystem
}

func TestCorpus(t *testing.T) {
	rec.SetCheck("corpus")
	for _, fd := range kf.For("C10") {
		var c verCase
		if err := json.Unmarshal(fd.Witness, &c); err != nil {
			t.Fatalf("bad witness %s: %v", fd.ID, err)
		}
		if obs, _, in, _ := roundTripW(sysByName(c.System), c.V, true); in && obs != "" {
			rec.Known(fd.ID, fd.Text+" ["+obs+"]")
		}
	}
}

func TestRoundTrip(t *testing.T) {
	for _, sys := range gen.Systems {
		g := gen.Version(sys)
		if sys == semver.RubyGems {
			g = gen.RubyGems(true)
		}
		rec.Check(t, "roundtrip/"+sys.String(), ev.N(40000, 3000000), rtProp(sys, g))
	}
}

func TestSameCanon(t *testing.T) {
	for _, sys := range gen.Systems {
		g := gen.Version(sys)
		if sys == semver.RubyGems {
			g = gen.RubyGems(true)
		}
		rec.Check(t, "samecanon/"+sys.String(), ev.N(30000, 2000000), pairProp(sys, g))
	}
}

func TestCanonVersion(t *testing.T) {
	rec.Check(t, "pypi.CanonVersion", ev.N(30000, 1000000), canonVersionProp)
}

func TestReplay(t *testing.T) {
	path := ev.ReplayFile()
	if path == "" {
		t.Skip("no replay file")
	}
	var c verCase
	check, err := ev.ReadReplay(path, &c)
	if err != nil {
		t.Fatal(err)
	}
	sys := sysByName(c.System)
	switch {
	case strings.HasPrefix(check, "samecanon/"):
		if obs, _, _ := sameCanon(sys, c.V, c.W); obs != "" {
			t.Fatal("replay fails: " + obs)
		}
	case check == "pypi.CanonVersion":
		if obs := canonVersionViolation(c.V); obs != "" {
			t.Fatal("replay fails: " + obs)
		}
	case strings.HasPrefix(check, "roundtrip-wildcards/"):
		if obs, exp, _, _ := roundTripW(sys, c.V, true); obs != "" {
			t.Fatalf("replay fails: %s (expected %s)", obs, exp)
		}
	default:
		if obs, exp, _, _ := roundTrip(sys, c.V); obs != "" {
			t.Fatalf("replay fails: %s (expected %s)", obs, exp)
		}
	}
}

func FuzzCanon(f *testing.F) {
	for _, s := range []string{"1.0.0", "v1.2-alpha+b", "1!2.0rc1.post2.dev3+a-b", "1.0-Final", "01.02.03.04-RC+x", "1.2.3.0", "0.0-SNAPSHOT"} {
		f.Add(uint8(0), s, s)
	}
	f.Fuzz(func(t *testing.T, sysb uint8, a, b string) {
		sys := gen.Systems[int(sysb)%len(gen.Systems)]
		if sys == semver.RubyGems && (hasGemPre(a) || hasGemPre(b)) {
			return
		}
		if sys == semver.Maven && (!gen.InMavenDomain(a) || !gen.InMavenDomain(b)) {
			return
		}
		if obs, exp, _, _ := roundTrip(sys, a); obs != "" {
			t.Fatalf("%s: %s (expected %s)", sys, obs, exp)
		}
		if obs, _, _ := sameCanon(sys, a, b); obs != "" {
			t.Fatalf("%s: %s", sys, obs)
		}
	})
}
