// C13 — graph canonicalisation yields one representative per isomorphism class.
package c13

import (
	"encoding/json"
	"fmt"
	"sort"
	"strings"
	"testing"

	"deps.dev/util/resolve"
	"deps.dev/util/resolve/dep"
	"deps.dev/util/resolve/verifh/internal/ev"
	"deps.dev/util/resolve/verifh/internal/iso"
	"deps.dev/util/resolve/verifh/internal/known"
	"pgregory.net/rapid"
)

var rec = ev.New("C13")
var kf *known.File

func TestMain(m *testing.M) {
	kf, _ = known.Load(ev.KnownFile())
	rec.Rule("(a) exhaustive: every rooted digraph with n <= 3 (quick) / n <= 4 plus a 5-node slice (thorough) nodes over all edge sets incl. self-loops, node names from a 3-letter alphabet (duplicates common), 0-1 node errors, against all (n-1)! renumberings of non-root nodes; (b) random graphs of 2-40 nodes with duplicate versions, parallel edges of different types/requirements, self-loops, cycles, unreachable nodes and node errors (a quarter with a duplicated node carrying several errors on both copies, a quarter with several pairs of parallel back edges or self loops that differ only in type, beyond a dozen edges) under random renumbering and edge/error shuffles; oracle = metamorphic: Canon fails for both or yields identical graphs; idempotent; root kept; result isomorphic to the input (harness canonical labeller). One evaluation = one (graph, renumbering) pair. Non-trivial: the graph has two nodes with the same version key, parallel edges or a cycle. Distinct = distinct graph text. One graph in twelve is a root on its own with several node errors and self loops.")
	ev.Main(m, rec)
}

// ---- replayable graph description ------------------------------------------

type gEdge struct {
	From int    `json:"f"`
	To   int    `json:"t"`
	Req  string `json:"r"`
	Type string `json:"ty,omitempty"` // "", "dev", "opt", "scope:x"
}

type gErr struct {
	Node int    `json:"n"`
	Req  string `json:"r"`
	Err  string `json:"e"`
}

type gCase struct {
	Nodes  []string `json:"nodes"` // "name@version"
	Edges  []gEdge  `json:"edges"`
	Errors []gErr   `json:"errors,omitempty"`
	Perm   []int    `json:"perm,omitempty"` // old -> new node index (perm[0] = 0)
	EPerm  []int    `json:"eperm,omitempty"`
}

func mkType(s string) dep.Type {
	var t dep.Type
	switch {
	case s == "dev":
		t.AddAttr(dep.Dev, "")
	case s == "opt":
		t.AddAttr(dep.Opt, "")
	case strings.HasPrefix(s, "scope:"):
		t.AddAttr(dep.Scope, s[6:])
	}
	return t
}

func vk(s string) resolve.VersionKey {
	name, ver, _ := strings.Cut(s, "@")
	return resolve.VersionKey{PackageKey: resolve.PackageKey{System: resolve.NPM, Name: name}, VersionType: resolve.Concrete, Version: ver}
}

// build constructs the graph; perm renumbers nodes (old->new), eperm permutes edges.
func build(c gCase, perm, eperm []int) *resolve.Graph {
	n := len(c.Nodes)
	if perm == nil {
		perm = ident(n)
	}
	inv := make([]int, n)
	for o, nw := range perm {
		inv[nw] = o
	}
	g := &resolve.Graph{}
	for i := 0; i < n; i++ {
		g.AddNode(vk(c.Nodes[inv[i]]))
	}
	edges := c.Edges
	if eperm != nil && len(eperm) == len(edges) {
		e2 := make([]gEdge, len(edges))
		for i, k := range eperm {
			e2[i] = edges[k]
		}
		edges = e2
	}
	for _, e := range edges {
		g.AddEdge(resolve.NodeID(perm[e.From]), resolve.NodeID(perm[e.To]), e.Req, mkType(e.Type))
	}
	errs := c.Errors
	if eperm != nil {
		// reverse the error order in the permuted copy
		e2 := make([]gErr, len(errs))
		for i := range errs {
			e2[i] = errs[len(errs)-1-i]
		}
		errs = e2
	}
	for _, e := range errs {
		g.AddError(resolve.NodeID(perm[e.Node]), resolve.VersionKey{PackageKey: resolve.PackageKey{System: resolve.NPM, Name: e.Req}, VersionType: resolve.Requirement, Version: "*"}, e.Err)
	}
	return g
}

func ident(n int) []int {
	p := make([]int, n)
	for i := range p {
		p[i] = i
	}
	return p
}

func render(g *resolve.Graph) string {
	var sb strings.Builder
	for i, n := range g.Nodes {
		fmt.Fprintf(&sb, "%d:%s", i, n.Version)
		for _, e := range n.Errors {
			fmt.Fprintf(&sb, "!%s=%s", e.Req, e.Error)
		}
		sb.WriteByte('\n')
	}
	for _, e := range g.Edges {
		fmt.Fprintf(&sb, "%d>%d %s %s\n", e.From, e.To, e.Requirement, e.Type)
	}
	return sb.String()
}

func sameGraph(a, b *resolve.Graph) bool {
	if len(a.Nodes) != len(b.Nodes) || len(a.Edges) != len(b.Edges) {
		return false
	}
	for i := range a.Nodes {
		if a.Nodes[i].Compare(b.Nodes[i]) != 0 {
			return false
		}
	}
	for i := range a.Edges {
		x, y := a.Edges[i], b.Edges[i]
		if x.From != y.From || x.To != y.To || x.Requirement != y.Requirement || x.Type.Compare(y.Type) != 0 {
			return false
		}
	}
	return true
}

func safeCanon(g *resolve.Graph) (err error, panicked any) {
	defer func() {
		if r := recover(); r != nil {
			panicked = r
		}
	}()
	return g.Canon(), nil
}

// checkPair returns the first violated clause for a graph and one renumbering.
func checkPair(c gCase, perm, eperm []int, withIso bool) (string, string) {
	g := build(c, nil, nil)
	hgr := build(c, perm, eperm)
	var isoBefore string
	if withIso {
		isoBefore = iso.FromResolve(g).Canon()
	}
	rootBefore := g.Nodes[0].Version
	errG, pG := safeCanon(g)
	errH, pH := safeCanon(hgr)
	if pG != nil || pH != nil {
		return fmt.Sprintf("Canon panicked: %v / %v", pG, pH), "returns"
	}
	if (errG == nil) != (errH == nil) {
		return fmt.Sprintf("Canon of the graph: err=%v; of the renumbered copy (perm %v): err=%v", errG, perm, errH), "fails for both or neither"
	}
	if g.Nodes[0].Version != rootBefore {
		return fmt.Sprintf("root changed from %v to %v", rootBefore, g.Nodes[0].Version), "root preserved"
	}
	if withIso && isoBefore != "" {
		if after := iso.FromResolve(g).Canon(); after != "" && after != isoBefore {
			return fmt.Sprintf("graph after Canon (err=%v) is not isomorphic to the input:\n%s", errG, render(g)), "same nodes, errors and edges"
		}
	}
	if errG != nil {
		return "", ""
	}
	if !sameGraph(g, hgr) {
		return fmt.Sprintf("canonical forms differ (perm %v):\n%s--- vs ---\n%s", perm, render(g), render(hgr)), "identical canonical graphs"
	}
	g2 := build(c, nil, nil)
	g2.Canon()
	before := render(g2)
	if err := g2.Canon(); err != nil {
		return fmt.Sprintf("second Canon fails: %v", err), "idempotent"
	}
	if render(g2) != before {
		return fmt.Sprintf("Canon is not idempotent:\n%s--- then ---\n%s", before, render(g2)), "idempotent"
	}
	return "", ""
}

func nontrivial(c gCase) bool {
	seen := map[string]bool{}
	for _, n := range c.Nodes {
		if seen[n] {
			return true
		}
		seen[n] = true
	}
	pairs := map[[2]int]bool{}
	for _, e := range c.Edges {
		k := [2]int{e.From, e.To}
		if pairs[k] || e.From == e.To {
			return true
		}
		pairs[k] = true
	}
	// cycle detection
	adj := map[int][]int{}
	for _, e := range c.Edges {
		adj[e.From] = append(adj[e.From], e.To)
	}
	state := map[int]int{}
	var dfs func(int) bool
	dfs = func(u int) bool {
		state[u] = 1
		for _, v := range adj[u] {
			if state[v] == 1 || (state[v] == 0 && dfs(v)) {
				return true
			}
		}
		state[u] = 2
		return false
	}
	for i := range c.Nodes {
		if state[i] == 0 && dfs(i) {
			return true
		}
	}
	return false
}

// Known-finding classes; see known_findings.txt.
func knownClass(c gCase) string {
	return ""
}

func perms(n int, f func([]int) bool) {
	// permutations of 1..n-1 with 0 fixed
	p := ident(n)
	var r func(k int) bool
	r = func(k int) bool {
		if k == n {
			return f(p)
		}
		for i := k; i < n; i++ {
			p[k], p[i] = p[i], p[k]
			if !r(k + 1) {
				return false
			}
			p[k], p[i] = p[i], p[k]
		}
		return true
	}
	if n <= 1 {
		f(p)
		return
	}
	r(1)
}

var alphabet = []string{"a@1", "b@1", "a@2"}

// enumerate calls f for every graph with n nodes (shard-filtered).
func enumerate(n int, selfLoops bool, labels []string, withErrors bool, f func(idx int64, c gCase) bool) {
	var pairs [][2]int
	for i := 0; i < n; i++ {
		for j := 0; j < n; j++ {
			if i != j || selfLoops {
				pairs = append(pairs, [2]int{i, j})
			}
		}
	}
	nl := len(labels)
	labelCount := 1
	for i := 0; i < n; i++ {
		labelCount *= nl
	}
	errChoices := 1
	if withErrors {
		errChoices = n + 1
	}
	var idx int64
	for lc := 0; lc < labelCount; lc++ {
		nodes := make([]string, n)
		x := lc
		for i := 0; i < n; i++ {
			nodes[i] = labels[x%nl]
			x /= nl
		}
		for es := 0; es < 1<<len(pairs); es++ {
			var edges []gEdge
			for k, p := range pairs {
				if es&(1<<k) != 0 {
					edges = append(edges, gEdge{From: p[0], To: p[1], Req: "*"})
				}
			}
			for ec := 0; ec < errChoices; ec++ {
				c := gCase{Nodes: nodes, Edges: edges}
				if ec > 0 {
					c.Errors = []gErr{{Node: ec - 1, Req: "x", Err: "boom"}}
				}
				idx++
				if !f(idx, c) {
					return
				}
			}
		}
	}
}

func runExhaustive(t *testing.T, name string, n int, selfLoops bool, labels []string, withErrors bool, sampleEvery int64) {
	rec.SetCheck(name)
	shard, nshards := int64(ev.Shard()), int64(ev.NShards())
	var graphs, failures int64
	enumerate(n, selfLoops, labels, withErrors, func(idx int64, c gCase) bool {
		if idx%nshards != shard {
			return true
		}
		if sampleEvery > 1 && (idx/nshards)%sampleEvery != int64(ev.Seed())%sampleEvery {
			return true
		}
		graphs++
		if cl := knownClass(c); cl != "" {
			rec.ExcludedKnown(cl)
			return true
		}
		nt := nontrivial(c)
		if nt {
			b, _ := json.Marshal(c)
			rec.NonTrivial(string(b))
			if rec.WantSample() {
				rec.Sample(c)
			}
		}
		perms(n, func(p []int) bool {
			rec.Eval(1)
			if obs, exp := checkPair(c, p, nil, n <= 4); obs != "" {
				cc := c
				cc.Perm = append([]int(nil), p...)
				if failures < 3 {
					rec.Violation(name, cc, obs, exp)
				}
				failures++
				return false
			}
			return true
		})
		return failures < 3
	})
	rec.AddExtra("exhaustive_graphs_"+name, graphs)
	if failures > 0 {
		t.Errorf("%s: %d violating graphs (first ones written as replay files)", name, failures)
	}
}

func TestExhaustive(t *testing.T) {
	runExhaustive(t, "exhaustive/n1", 1, true, alphabet, true, 1)
	runExhaustive(t, "exhaustive/n2", 2, true, alphabet, true, 1)
	runExhaustive(t, "exhaustive/n3", 3, true, alphabet, true, 1)
	if ev.Thorough() {
		runExhaustive(t, "exhaustive/n4", 4, true, alphabet, true, 1)
		runExhaustive(t, "exhaustive/n5-noloops-2labels", 5, false, alphabet[:2], false, 8)
		rec.Extra("exhaustive", true)
	} else {
		runExhaustive(t, "sampled/n4", 4, true, alphabet, true, 600)
	}
}

// ---- random graphs ----------------------------------------------------------

func drawGraph(t *rapid.T) gCase {
	// a root on its own (nothing could be resolved): several node errors and
	// self loops, whose order is all there is to canonicalise
	if rapid.IntRange(0, 11).Draw(t, "loneroot") == 0 {
		c := gCase{Nodes: []string{"a@1"}, Perm: []int{0}}
		for i, ns := 0, rapid.IntRange(0, 4).Draw(t, "nself"); i < ns; i++ {
			c.Edges = append(c.Edges, gEdge{From: 0, To: 0, Req: rapid.SampledFrom([]string{"*", "^1", "~2"}).Draw(t, "sreq"), Type: rapid.SampledFrom([]string{"", "dev", "opt", "scope:peer"}).Draw(t, "sty")})
		}
		for i, ne := 0, rapid.IntRange(0, 4).Draw(t, "nrooterr"); i < ne; i++ {
			c.Errors = append(c.Errors, gErr{Node: 0, Req: rapid.SampledFrom([]string{"x", "y", "z"}).Draw(t, "rer"), Err: rapid.SampledFrom([]string{"boom", "bang"}).Draw(t, "ree")})
		}
		c.EPerm = rapid.Permutation(ident(len(c.Edges))).Draw(t, "seperm")
		return c
	}
	n := rapid.IntRange(2, 40).Draw(t, "n")
	if rapid.IntRange(0, 2).Draw(t, "small") > 0 {
		n = rapid.IntRange(2, 9).Draw(t, "nsmall")
	}
	names := []string{"a", "b", "c", "d", "e", "f", "g", "h"}
	vers := []string{"1", "2", "3"}
	nameN := rapid.IntRange(1, len(names)).Draw(t, "names")
	c := gCase{}
	for i := 0; i < n; i++ {
		c.Nodes = append(c.Nodes, rapid.SampledFrom(names[:nameN]).Draw(t, "name")+"@"+rapid.SampledFrom(vers).Draw(t, "ver"))
	}
	// spanning structure so that most graphs are connected
	connected := rapid.IntRange(0, 9).Draw(t, "connected") < 8
	types := []string{"", "", "", "dev", "opt", "scope:peer"}
	reqs := []string{"*", "^1", "~2"}
	if connected {
		for i := 1; i < n; i++ {
			c.Edges = append(c.Edges, gEdge{From: rapid.IntRange(0, i-1).Draw(t, "parent"), To: i, Req: rapid.SampledFrom(reqs).Draw(t, "req"), Type: rapid.SampledFrom(types).Draw(t, "ty")})
		}
	}
	extra := rapid.IntRange(0, n).Draw(t, "extra")
	for i := 0; i < extra; i++ {
		e := gEdge{From: rapid.IntRange(0, n-1).Draw(t, "from"), To: rapid.IntRange(0, n-1).Draw(t, "to"), Req: rapid.SampledFrom(reqs).Draw(t, "req"), Type: rapid.SampledFrom(types).Draw(t, "ty")}
		if len(c.Edges) > 0 && rapid.IntRange(0, 4).Draw(t, "parallel") == 0 {
			p := c.Edges[rapid.IntRange(0, len(c.Edges)-1).Draw(t, "pe")]
			e.From, e.To = p.From, p.To
		}
		c.Edges = append(c.Edges, e)
	}
	ne := rapid.IntRange(0, 3).Draw(t, "nerr")
	for i := 0; i < ne; i++ {
		c.Errors = append(c.Errors, gErr{Node: rapid.IntRange(0, n-1).Draw(t, "en"), Req: rapid.SampledFrom([]string{"x", "y"}).Draw(t, "er"), Err: rapid.SampledFrom([]string{"boom", "bang"}).Draw(t, "ee")})
	}
	// a quarter of the graphs: several pairs of parallel edges that agree in
	// everything but the dependency type, as back edges and self loops (the only
	// places duplicates leave them), on top of a duplicated node so that the
	// breadth-first relabelling runs; with more than a dozen edges in total
	if n >= 4 && rapid.IntRange(0, 3).Draw(t, "parheavy") == 0 {
		i := rapid.IntRange(1, n-1).Draw(t, "pdupa")
		j := rapid.IntRange(1, n-1).Draw(t, "pdupb")
		c.Nodes[j] = c.Nodes[i]
		for k, np := 0, rapid.IntRange(3, 7).Draw(t, "npar"); k < np; k++ {
			from := rapid.IntRange(0, n-1).Draw(t, "pfrom")
			to := rapid.IntRange(0, from).Draw(t, "pto") // back edge or self loop
			req := rapid.SampledFrom(reqs).Draw(t, "preq")
			t1 := rapid.SampledFrom(types).Draw(t, "pt1")
			t2 := rapid.SampledFrom([]string{"dev", "opt", "scope:peer", ""}).Draw(t, "pt2")
			c.Edges = append(c.Edges, gEdge{From: from, To: to, Req: req, Type: t1}, gEdge{From: from, To: to, Req: req, Type: t2})
		}
	}
	// a quarter of the graphs: two nodes of one version, each with several node
	// errors (the permuted copy records errors in reverse order)
	if n >= 3 && rapid.IntRange(0, 3).Draw(t, "errheavy") == 0 {
		i := rapid.IntRange(1, n-1).Draw(t, "dupa")
		j := rapid.IntRange(1, n-1).Draw(t, "dupb")
		c.Nodes[j] = c.Nodes[i]
		for _, k := range []int{i, j} {
			for m, ne := 0, rapid.IntRange(2, 3).Draw(t, "nerrs"); m < ne; m++ {
				c.Errors = append(c.Errors, gErr{Node: k, Req: rapid.SampledFrom([]string{"x", "y", "z"}).Draw(t, "er2"), Err: rapid.SampledFrom([]string{"boom", "bang"}).Draw(t, "ee2")})
			}
		}
	}
	// renumbering of non-root nodes and edge shuffle
	rest := rapid.Permutation(ident(n)[1:]).Draw(t, "perm")
	c.Perm = append([]int{0}, rest...)
	c.EPerm = rapid.Permutation(ident(len(c.Edges))).Draw(t, "eperm")
	return c
}

func randomProp(t *rapid.T) {
	c := drawGraph(t)
	rec.SetCase(c)
	if cl := knownClass(c); cl != "" {
		rec.ExcludedKnown(cl)
		return
	}
	rec.Eval(1)
	if nontrivial(c) {
		b, _ := json.Marshal(gCase{Nodes: c.Nodes, Edges: c.Edges, Errors: c.Errors})
		rec.NonTrivial(string(b))
		rec.Class("nontrivial")
		if len(c.Nodes) <= 8 && rec.WantSample() {
			rec.Sample(c)
		}
	}
	if obs, exp := checkPair(c, c.Perm, c.EPerm, len(c.Nodes) <= 12); obs != "" {
		rec.Fail(t, c, obs, exp)
	}
}

func TestRandom(t *testing.T) {
	rec.Check(t, "random", ev.N(20000, 3000000), randomProp)
}

func TestCorpus(t *testing.T) {
	rec.SetCheck("corpus")
	for _, fd := range kf.For("C13") {
		var c gCase
		if err := json.Unmarshal(fd.Witness, &c); err != nil {
			t.Fatalf("bad witness %s: %v", fd.ID, err)
		}
		if obs, _ := checkPair(c, c.Perm, c.EPerm, len(c.Nodes) <= 12); obs != "" {
			rec.Known(fd.ID, fd.Text+" ["+strings.SplitN(obs, "\n", 2)[0]+"]")
		}
	}
}

func TestReplay(t *testing.T) {
	path := ev.ReplayFile()
	if path == "" {
		t.Skip("no replay file")
	}
	var c gCase
	if _, err := ev.ReadReplay(path, &c); err != nil {
		t.Fatal(err)
	}
	if obs, exp := checkPair(c, c.Perm, c.EPerm, len(c.Nodes) <= 12); obs != "" && knownClass(c) == "" {
		t.Fatalf("replay fails: %s (expected %s)", obs, exp)
	}
	_ = sort.Ints
}
