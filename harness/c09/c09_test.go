// C09 — set union and intersection mean union and intersection of the versions matched.
package c09

import (
	"encoding/json"
	"fmt"
	"regexp"
	"strings"
	"testing"

	"deps.dev/util/resolve/verifh/internal/ev"
	"deps.dev/util/resolve/verifh/internal/gen"
	"deps.dev/util/resolve/verifh/internal/known"
	"deps.dev/util/semver"
	"pgregory.net/rapid"
)

var rec = ev.New("C09")
var kf *known.File

var systems = []semver.System{semver.DefaultSystem, semver.NPM, semver.Cargo, semver.Go}

func TestMain(m *testing.M) {
	kf, _ = known.Load(ev.KnownFile())
	rec.Rule("pairs (A,B) of grammar-generated constraints per system (Default, NPM, Cargo, Go) and a candidate pool derived from the bounds of A and B (each literal, its ±1 neighbours, prerelease and build variants) plus random versions; oracle = pointwise set semantics: union = or, intersection = and (release versions; every version under prerelease-inclusive matching), Empty() implies nothing matches, commutativity, invariance under permuting || alternatives, argument not modified. One evaluation = one (A,B,v). Non-trivial: A and B both non-empty and v is a bound or a neighbour of a bound of A or B. Distinct = distinct (system,A,B,v). Operands are also drawn in the set syntax (spans in any order, open lower bounds at a release, one-version gaps), candidates include the short forms of a literal's numbers, and the constraint a receiver was taken from with Set() must print the same after Union/Intersect.")
	rec.Assume("each operation uses freshly parsed operands (Union/Intersect overwrite the receiver by contract)")
	ev.Main(m, rec)
}

type setCase struct {
	System string `json:"system"`
	A      string `json:"a"`
	B      string `json:"b"`
	V      string `json:"v,omitempty"`
}

func sysByName(name string) semver.System {
	for _, s := range gen.Systems {
		if s.String() == name {
			return s
		}
	}
	return semver.DefaultSystem
}

func parseSet(sys semver.System, s string) (semver.Set, *semver.Constraint, bool) {
	parse := sys.ParseConstraint
	if strings.HasPrefix(s, "{") {
		parse = sys.ParseSetConstraint // an operand written in the set syntax
	}
	c, err := parse(s)
	if err != nil {
		return semver.Set{}, nil, false
	}
	return c.Set(), c, true
}

type result struct {
	check    string
	v        string
	observed string
	expected string
}

// evalPair checks every law for (A,B) over the pool. It returns the failures
// (empty when the laws hold) and whether the pair was in the domain.
func evalPair(sys semver.System, A, B string, pool []string, onEval func(v string, boundary bool, bothNonEmpty bool)) ([]result, bool) {
	var fails []result
	_, cA, okA := parseSet(sys, A)
	_, cB, okB := parseSet(sys, B)
	if !okA || !okB {
		return nil, false
	}
	// union, both orders
	u1, cU1, _ := parseSet(sys, A)
	bArg, _, _ := parseSet(sys, B)
	bBefore := bArg.String()
	srcBefore := cU1.Set().String()
	if err := u1.Union(bArg); err != nil {
		return nil, false // documented error return: not a membership claim
	}
	// The receiver was taken from a constraint with Set(); the operation
	// overwrites the receiver, not the constraint it came from.
	if got := cU1.Set().String(); got != srcBefore {
		fails = append(fails, result{"union-source-constraint-modified", "", fmt.Sprintf("the constraint %q printed %s before s := c.Set(); s.Union(B) and %s after", A, srcBefore, got), "constraint unchanged"})
	}
	if got := bArg.String(); got != bBefore {
		fails = append(fails, result{"union-argument-modified", "", fmt.Sprintf("argument printed %s before Union and %s after", bBefore, got), "argument unchanged"})
	}
	u2, _, _ := parseSet(sys, B)
	aArg, _, _ := parseSet(sys, A)
	if err := u2.Union(aArg); err != nil {
		fails = append(fails, result{"union-commutes", "", "A∪B succeeds but B∪A returns error " + err.Error(), "same outcome"})
		return fails, true
	}
	// intersection, both orders
	i1, cI1, _ := parseSet(sys, A)
	bArg2, _, _ := parseSet(sys, B)
	bBefore = bArg2.String()
	srcBefore = cI1.Set().String()
	errI1 := i1.Intersect(bArg2)
	if got := cI1.Set().String(); got != srcBefore {
		fails = append(fails, result{"intersect-source-constraint-modified", "", fmt.Sprintf("the constraint %q printed %s before s := c.Set(); s.Intersect(B) and %s after", A, srcBefore, got), "constraint unchanged"})
	}
	if got := bArg2.String(); got != bBefore {
		fails = append(fails, result{"intersect-argument-modified", "", fmt.Sprintf("argument printed %s before Intersect and %s after", bBefore, got), "argument unchanged"})
	}
	i2, _, _ := parseSet(sys, B)
	aArg2, _, _ := parseSet(sys, A)
	errI2 := i2.Intersect(aArg2)
	if (errI1 == nil) != (errI2 == nil) {
		fails = append(fails, result{"intersect-commutes", "", fmt.Sprintf("A∩B error=%v, B∩A error=%v", errI1, errI2), "same outcome"})
	}
	interOK := errI1 == nil && errI2 == nil
	// prerelease-inclusive view of the intersection through the set text
	var cI *semver.Constraint
	if interOK {
		txt := i1.String()
		if c, err := sys.ParseSetConstraint(txt); err == nil && c.Set().String() == txt {
			cI = c
		}
	}
	sa, sb := cA.Set(), cB.Set()
	bothNonEmpty := !sa.Empty() && !sb.Empty()
	boundary := map[string]bool{}
	for _, v := range gen.BoundaryVersions(styleOf(sys), A, B) {
		boundary[v] = true
	}
	for _, vs := range pool {
		v, err := sys.Parse(vs)
		if err != nil || v.IsWildcard() {
			continue
		}
		if onEval != nil {
			onEval(vs, boundary[vs], bothNonEmpty)
		}
		mA, mB := sa.MatchVersion(v), sb.MatchVersion(v)
		if got, want := u1.MatchVersion(v), mA || mB; got != want {
			fails = append(fails, result{"union-pointwise", vs, fmt.Sprintf("A matches=%v, B matches=%v, A∪B=%s matches=%v", mA, mB, u1, got), fmt.Sprint(want)})
		}
		if got, want := u2.MatchVersion(v), u1.MatchVersion(v); got != want {
			fails = append(fails, result{"union-commutes", vs, fmt.Sprintf("A∪B=%s matches=%v, B∪A=%s matches=%v", u1, want, u2, got), "same"})
		}
		if interOK {
			if !v.IsPrerelease() {
				if got, want := i1.MatchVersion(v), mA && mB; got != want {
					fails = append(fails, result{"intersect-pointwise", vs, fmt.Sprintf("A matches=%v, B matches=%v, A∩B=%s matches=%v", mA, mB, i1, got), fmt.Sprint(want)})
				}
			}
			if got, want := i2.MatchVersion(v), i1.MatchVersion(v); got != want {
				fails = append(fails, result{"intersect-commutes", vs, fmt.Sprintf("A∩B=%s matches=%v, B∩A=%s matches=%v", i1, want, i2, got), "same"})
			}
			if cI != nil {
				pA, pB := cA.MatchVersionPrerelease(v), cB.MatchVersionPrerelease(v)
				if got, want := cI.MatchVersionPrerelease(v), pA && pB; got != want {
					fails = append(fails, result{"intersect-pointwise-prerelease-inclusive", vs, fmt.Sprintf("inclusive: A matches=%v, B matches=%v, A∩B=%s matches=%v", pA, pB, i1, got), fmt.Sprint(want)})
				}
			}
			if i1.Empty() && i1.MatchVersion(v) {
				fails = append(fails, result{"empty-matches-nothing", vs, fmt.Sprintf("A∩B=%s reports Empty() but matches", i1), "no match"})
			}
		}
		if sa.Empty() && mA {
			fails = append(fails, result{"empty-matches-nothing", vs, fmt.Sprintf("A=%s reports Empty() but matches", sa), "no match"})
		}
		if u1.Empty() && u1.MatchVersion(v) {
			fails = append(fails, result{"empty-matches-nothing", vs, fmt.Sprintf("A∪B=%s reports Empty() but matches", u1), "no match"})
		}
	}
	return fails, true
}

func styleOf(sys semver.System) string {
	if sys == semver.Go {
		return "go"
	}
	return "semver"
}

// Known-finding classes (active only while known_findings.txt lists them).
//
// InclusiveMergeAcrossPrereleaseGap: canonicalisation merges a span ending at
// the last release before X with a span starting at X ("[1.0.0:1.∞.∞]" and
// "[2.0.0:...]" become one span; the pinned TestUnion row {"1","2"} requires
// it). Under prerelease-inclusive matching the prereleases of X lie in that
// gap, so the merged intersection matches X-pre although one operand does not.
// Recognised by: inclusive intersection law, v is a prerelease, and v's
// release triple is the lower bound of a span of A or B.
//
// MinVersionLiteralPrereleaseFlag: a user-written lower bound "0.0.0-0" and the
// internal minimum version print identically but only the former enables
// prerelease matching; Intersect keeps the receiver's bound when both are
// equal, so A∩B and B∩A differ on the single version 0.0.0-0.
var minLiteralRE = regexp.MustCompile(`(^|[^0-9.])v?0(\.0){0,2}-0($|[^0-9A-Za-z.-])`)

var spanMinRE = regexp.MustCompile(`[\[(]([^:,{}]+):|[{,]([^\[(:,{}]+)[,}]`)

func spanMins(sys semver.System, text string) []string {
	c, err := sys.ParseConstraint(text)
	if err != nil {
		return nil
	}
	var out []string
	for _, m := range spanMinRE.FindAllStringSubmatch(c.Set().String(), -1) {
		if m[1] != "" {
			out = append(out, m[1])
		} else if m[2] != "" {
			out = append(out, m[2])
		}
	}
	return out
}

var spanBoundsRE = regexp.MustCompile(`[\[(]([^:,{}]+):([^\])]+)[\])]`)

// spanBounds returns the textual min and max of every vector span of the set.
func spanBounds(sys semver.System, text string) []string {
	c, err := sys.ParseConstraint(text)
	if err != nil {
		return nil
	}
	var out []string
	for _, m := range spanBoundsRE.FindAllStringSubmatch(c.Set().String(), -1) {
		out = append(out, m[1], m[2])
	}
	return out
}

func knownClass(sys semver.System, r result, A, B string) string {
	switch r.check {
	case "intersect-pointwise-prerelease-inclusive":
		if !kf.Open("C09", "InclusiveMergeAcrossPrereleaseGap") {
			return ""
		}
		v, err := sys.Parse(r.v)
		if err != nil || !v.IsPrerelease() {
			return ""
		}
		rel := r.v
		if i := strings.IndexAny(rel, "-+"); i > 0 {
			rel = rel[:i]
		}
		rv, err := sys.Parse(rel)
		if err != nil {
			return ""
		}
		// The gap is swallowed when canonicalisation (of an operand or of the
		// result) merges a span ending just below the release with the span
		// that starts at it: some alternative of A or B has a span starting at
		// the release, and the printed intersection has a span that starts at a
		// lower release and runs across it.
		startsThere := false
		for _, X := range []string{A, B} {
			for _, alt := range append(strings.Split(X, "||"), X) {
				for _, m := range spanMins(sys, alt) {
					if mv, err := sys.Parse(m); err == nil && mv.Compare(rv) == 0 {
						startsThere = true
					}
				}
			}
		}
		if !startsThere {
			return ""
		}
		i := strings.Index(r.observed, "A∩B={")
		if i < 0 {
			return ""
		}
		res := r.observed[i+len("A∩B="):]
		if j := strings.IndexByte(res, '}'); j >= 0 {
			res = res[:j+1]
		}
		for _, m := range spanBoundsRE.FindAllStringSubmatch(res, -1) {
			lo, hi := m[1], m[2]
			if k := strings.IndexAny(lo, "-+"); k > 0 {
				lo = lo[:k]
			}
			lov, err1 := sys.Parse(lo)
			hiv, err2 := sys.Parse(strings.NewReplacer("∞", "999999999").Replace(hi))
			if err1 == nil && err2 == nil && lov.Compare(rv) < 0 && rv.Compare(hiv) <= 0 {
				return "InclusiveMergeAcrossPrereleaseGap"
			}
		}
	case "union-pointwise", "union-commutes":
		if !kf.Open("C09", "UnionMergeLosesPrereleaseBound") {
			return ""
		}
		v, err := sys.Parse(r.v)
		if err != nil || !v.IsPrerelease() {
			return ""
		}
		rel := r.v
		if i := strings.IndexAny(rel, "-+"); i > 0 {
			rel = rel[:i]
		}
		rv, err := sys.Parse(rel)
		if err != nil {
			return ""
		}
		for _, b := range append(spanBounds(sys, A), spanBounds(sys, B)...) {
			bv, err := sys.Parse(b)
			if err != nil || !bv.IsPrerelease() {
				continue
			}
			brel := b[:strings.IndexByte(b, '-')]
			if br, err := sys.Parse(brel); err == nil && br.Compare(rv) == 0 {
				return "UnionMergeLosesPrereleaseBound"
			}
		}
	case "intersect-commutes":
		if !kf.Open("C09", "MinVersionLiteralPrereleaseFlag") {
			return ""
		}
		v, err := sys.Parse(r.v)
		min := "0.0.0-0"
		if sys == semver.Go {
			min = "v0.0.0-0"
		}
		rel := r.v
		if i := strings.IndexAny(rel, "-+"); i > 0 {
			rel = rel[:i]
		}
		zero := "0.0.0"
		if sys == semver.Go {
			zero = "v0.0.0"
		}
		_ = min
		// (the bound and the candidate may be written in short form: 0-0, 0.0-0)
		relZero := false
		if rv, rerr := sys.Parse(rel); rerr == nil {
			if zv, zerr := sys.Parse(zero); zerr == nil {
				relZero = rv.Compare(zv) == 0
			}
		}
		if err == nil && v.IsPrerelease() && relZero && (minLiteralRE.MatchString(A) || minLiteralRE.MatchString(B)) {
			return "MinVersionLiteralPrereleaseFlag"
		}
	}
	return ""
}

func pairProp(sys semver.System) func(*rapid.T) {
	g := gen.Constraint(sys)
	vg := gen.SemverLike(sys, gen.SemverOpts{Strict: true})
	return func(t *rapid.T) {
		A := g.Draw(t, "A")
		B := g.Draw(t, "B")
		pool := gen.BoundaryVersions(styleOf(sys), A, B)
		nrand := rapid.IntRange(0, 4).Draw(t, "nrand")
		for i := 0; i < nrand; i++ {
			pool = append(pool, vg.Draw(t, "rv"))
		}
		c := setCase{System: sys.String(), A: A, B: B}
		rec.SetCase(c)
		sampled := false
		fails, in := evalPair(sys, A, B, pool, func(v string, boundary, both bool) {
			rec.Eval(1)
			if boundary && both {
				rec.NonTrivial(sys.String() + "|" + A + "|" + B + "|" + v)
				if !sampled && rec.WantSample() {
					sampled = true
					rec.Sample(setCase{sys.String(), A, B, v})
				}
			}
		})
		if !in {
			rec.ExcludedDomain("constraint-rejected-or-union-error")
			return
		}
		if strings.Contains(A, "||") || strings.Contains(B, "||") {
			rec.Class("has-or")
		}
		for _, f := range fails {
			if cl := knownClass(sys, f, A, B); cl != "" {
				rec.ExcludedKnown(cl)
				continue
			}
			c.V = f.v
			rec.Fail(t, map[string]string{"system": c.System, "a": A, "b": B, "v": f.v, "law": f.check}, f.observed, f.expected)
		}
	}
}

// setTextOperand writes a set in the system-independent set syntax: one to
// three spans listed in any order, each end open or closed, bounds from a small
// pool. The spans of one operand are disjoint and leave at least one release
// between them (possibly exactly one: "[1.0.0:1.2.3],(1.2.4:2.0.0]"), so the
// text denotes what canonicalisation would keep as it is; spans of different
// operands touch, overlap and adjoin freely.
func setTextOperand(sys semver.System) *rapid.Generator[string] {
	pool := [][3]int{{0, 0, 0}, {0, 0, 1}, {1, 0, 0}, {1, 2, 3}, {1, 2, 4}, {1, 2, 5}, {1, 3, 0}, {2, 0, 0}, {2, 0, 1}, {3, 0, 0}}
	const inf = 1 << 30
	less := func(x, y [3]int) bool {
		for i := 0; i < 3; i++ {
			if x[i] != y[i] {
				return x[i] < y[i]
			}
		}
		return false
	}
	return rapid.Custom(func(t *rapid.T) string {
		pfx := ""
		if sys == semver.Go {
			pfx = "v"
		}
		show := func(v [3]int) string {
			if v[1] == inf {
				return fmt.Sprintf("%s%d.∞.∞", pfx, v[0])
			}
			return fmt.Sprintf("%s%d.%d.%d", pfx, v[0], v[1], v[2])
		}
		n := rapid.IntRange(1, 3).Draw(t, "nspans")
		var spans []string
		// free: the first release a further span may contain; freeOpen: only as an open lower bound
		i := 0
		var free [3]int
		freeOpen := false
		for k := 0; k < n && i < len(pool); k++ {
			// lower bound
			i += rapid.IntRange(0, 2).Draw(t, "skip")
			for i < len(pool) && less(pool[i], free) {
				i++
			}
			if i >= len(pool) {
				break
			}
			lo := pool[i]
			loOpen := rapid.Bool().Draw(t, "loopen")
			if lo == free && freeOpen {
				loOpen = true
			}
			// upper bound
			j := i + rapid.IntRange(0, 3).Draw(t, "len")
			if loOpen && j == i {
				j++ // an open lower bound needs a span, not a point
			}
			if j >= len(pool) {
				j = len(pool) - 1
			}
			if loOpen && j == i {
				break
			}
			hi := pool[j]
			hiOpen := rapid.Bool().Draw(t, "hiopen")
			if j > i && rapid.IntRange(0, 5).Draw(t, "inf") == 0 {
				hi, hiOpen = [3]int{hi[0], inf, inf}, false
			}
			if hi == lo {
				spans = append(spans, show(lo))
				loOpen, hiOpen = false, false
			} else {
				l, r := "[", "]"
				if loOpen {
					l = "("
				}
				if hiOpen {
					r = ")"
				}
				spans = append(spans, l+show(lo)+":"+show(hi)+r)
			}
			// what the next span may start with
			switch {
			case hi[1] == inf:
				free, freeOpen = [3]int{hi[0] + 1, 0, 0}, true
			case hiOpen:
				free, freeOpen = hi, true
			default:
				free, freeOpen = [3]int{hi[0], hi[1], hi[2] + 1}, true
			}
			for i < len(pool) && !less(hi, pool[i]) && hi[1] != inf {
				i++
			}
		}
		perm := rapid.Permutation(spans).Draw(t, "order")
		return "{" + strings.Join(perm, ",") + "}"
	})
}

// setTextProp: the same laws with operands written in the set syntax, whose
// spans need not be listed in order and may have an open lower end at a
// release (a form the constraint syntaxes never produce).
func setTextProp(sys semver.System) func(*rapid.T) {
	sg := setTextOperand(sys)
	cg := gen.Constraint(sys)
	return func(t *rapid.T) {
		A := sg.Draw(t, "A")
		B := sg.Draw(t, "B")
		if rapid.IntRange(0, 3).Draw(t, "mixed") == 0 {
			B = cg.Draw(t, "Bc")
		}
		if rapid.Bool().Draw(t, "swap") {
			A, B = B, A
		}
		pool := gen.BoundaryVersions(styleOf(sys), A, B)
		c := setCase{System: sys.String(), A: A, B: B}
		rec.SetCase(c)
		sampled := false
		fails, in := evalPair(sys, A, B, pool, func(v string, boundary, both bool) {
			rec.Eval(1)
			if boundary && both {
				rec.NonTrivial(sys.String() + "|" + A + "|" + B + "|" + v)
				if !sampled && rec.WantSample() {
					sampled = true
					rec.Sample(setCase{sys.String(), A, B, v})
				}
			}
		})
		if !in {
			rec.ExcludedDomain("constraint-rejected-or-union-error")
			return
		}
		for _, f := range fails {
			if cl := knownClass(sys, f, A, B); cl != "" {
				rec.ExcludedKnown(cl)
				continue
			}
			rec.Fail(t, map[string]string{"system": c.System, "a": A, "b": B, "v": f.v, "law": f.check}, f.observed, f.expected)
		}
	}
}

// permProp: permuting the || alternatives of a constraint leaves membership unchanged.
func permProp(sys semver.System) func(*rapid.T) {
	g := gen.Constraint(sys)
	return func(t *rapid.T) {
		A := g.Draw(t, "A")
		alts := strings.Split(A, "||")
		if len(alts) < 2 {
			rec.ExcludedDomain("single-alternative")
			return
		}
		perm := rapid.Permutation(alts).Draw(t, "perm")
		P := strings.Join(perm, "||")
		c := setCase{System: sys.String(), A: A, B: P}
		rec.SetCase(c)
		cA, errA := sys.ParseConstraint(A)
		cP, errP := sys.ParseConstraint(P)
		if errA != nil && errP != nil {
			rec.ExcludedDomain("constraint-rejected")
			return
		}
		if (errA == nil) != (errP == nil) {
			rec.Eval(1)
			rec.Fail(t, c, fmt.Sprintf("%q: error=%v; permuted %q: error=%v", A, errA, P, errP), "same acceptance")
		}
		for _, vs := range gen.BoundaryVersions(styleOf(sys), A) {
			v, err := sys.Parse(vs)
			if err != nil {
				continue
			}
			rec.Eval(1)
			if A != P {
				rec.NonTrivial(sys.String() + "|" + A + "|" + P + "|" + vs)
			}
			if a, p := cA.MatchVersion(v), cP.MatchVersion(v); a != p {
				rec.Fail(t, map[string]string{"system": c.System, "a": A, "b": P, "v": vs, "law": "or-permutation"}, fmt.Sprintf("%q (set %s) matches %s: %v; permuted %q (set %s): %v", A, cA.Set(), vs, a, P, cP.Set(), p), "same")
			}
			if a, p := cA.MatchVersionPrerelease(v), cP.MatchVersionPrerelease(v); a != p {
				rec.Fail(t, map[string]string{"system": c.System, "a": A, "b": P, "v": vs, "law": "or-permutation-inclusive"}, fmt.Sprintf("inclusive: %q (set %s) matches %s: %v; permuted %q (set %s): %v", A, cA.Set(), vs, a, P, cP.Set(), p), "same")
			}
		}
		if A != P && rec.WantSample() {
			rec.Sample(c)
		}
	}
}

func TestCorpus(t *testing.T) {
	rec.SetCheck("corpus")
	for _, fd := range kf.For("C09") {
		var c setCase
		if err := json.Unmarshal(fd.Witness, &c); err != nil {
			t.Fatalf("bad witness %s: %v", fd.ID, err)
		}
		fails, _ := evalPair(sysByName(c.System), c.A, c.B, []string{c.V}, nil)
		if len(fails) > 0 {
			rec.Known(fd.ID, fd.Text+" ["+fails[0].check+": "+fails[0].observed+"]")
		}
	}
}

func TestSetAlgebra(t *testing.T) {
	for _, sys := range systems {
		rec.Check(t, "algebra/"+sys.String(), ev.N(12000, 1500000), pairProp(sys))
	}
}

func TestSetTextOperands(t *testing.T) {
	for _, sys := range systems {
		rec.Check(t, "algebra-set-text/"+sys.String(), ev.N(6000, 600000), setTextProp(sys))
	}
}

func TestOrPermutation(t *testing.T) {
	for _, sys := range []semver.System{semver.DefaultSystem, semver.NPM} {
		rec.Check(t, "or-permutation/"+sys.String(), ev.N(12000, 600000), permProp(sys))
	}
}

func TestReplay(t *testing.T) {
	path := ev.ReplayFile()
	if path == "" {
		t.Skip("no replay file")
	}
	var c struct {
		System, A, B, V, Law string
	}
	check, err := ev.ReadReplay(path, &c)
	if err != nil {
		t.Fatal(err)
	}
	sys := sysByName(c.System)
	if strings.HasPrefix(check, "or-permutation/") {
		cA, errA := sys.ParseConstraint(c.A)
		cP, errP := sys.ParseConstraint(c.B)
		if (errA == nil) != (errP == nil) {
			t.Fatalf("replay fails: acceptance differs: %v vs %v", errA, errP)
		}
		if errA != nil {
			return
		}
		v, err := sys.Parse(c.V)
		if err != nil {
			return
		}
		if cA.MatchVersion(v) != cP.MatchVersion(v) || cA.MatchVersionPrerelease(v) != cP.MatchVersionPrerelease(v) {
			t.Fatalf("replay fails: %q and permuted %q disagree on %s", c.A, c.B, c.V)
		}
		return
	}
	pool := gen.BoundaryVersions(styleOf(sys), c.A, c.B)
	if c.V != "" {
		pool = []string{c.V}
	}
	fails, _ := evalPair(sys, c.A, c.B, pool, nil)
	for _, f := range fails {
		if knownClass(sys, f, c.A, c.B) == "" {
			t.Fatalf("replay fails: %s v=%s: %s (expected %s)", f.check, f.v, f.observed, f.expected)
		}
	}
}

func FuzzSetAlgebra(f *testing.F) {
	f.Add(uint8(1), ">=1.2.0 <2.0.0", ">=2.0.0 <3.0.0", "2.0.0")
	f.Add(uint8(1), ">=0.1.1 <1 || ~>2", "1.x", "1.3.3")
	f.Add(uint8(0), "^1.2.3, <1.5", "~1.4 || 3", "1.4.0-alpha")
	f.Add(uint8(2), ">=1.0.0-alpha, <1.0.0", "1.0.0-beta", "1.0.0-rc.1")
	f.Add(uint8(3), "v1.2.3", "v0.2.0", "v1.9.0")
	f.Fuzz(func(t *testing.T, sysb uint8, A, B, v string) {
		sys := systems[int(sysb)%len(systems)]
		if len(A) > 200 || len(B) > 200 {
			return
		}
		pool := append(gen.BoundaryVersions(styleOf(sys), A, B), v)
		fails, _ := evalPair(sys, A, B, pool, nil)
		for _, fl := range fails {
			if knownClass(sys, fl, A, B) == "" {
				t.Fatalf("%s A=%q B=%q v=%q: %s: %s (expected %s)", sys, A, B, fl.v, fl.check, fl.observed, fl.expected)
			}
		}
	})
}
