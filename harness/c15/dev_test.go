package c15

import (
	"fmt"
	"os"
	"strings"
	"testing"
)

// TestActivationTable compares single-profile POMs, one activation value each
// (development aid: C15_TABLE=jdk|osfamily|osname|osarch|osversion with values in C15_VALUES separated by |).
func TestActivationTable(t *testing.T) {
	kind := os.Getenv("C15_TABLE")
	if kind == "" || !needOracle(t) {
		t.Skip()
	}
	for _, v := range strings.Split(os.Getenv("C15_VALUES"), "|") {
		pr := pProfile{ID: "p", Deps: []pDep{{G: "g", A: "a1", V: "1.0"}}}
		switch kind {
		case "jdk":
			pr.JDK = v
		case "osfamily":
			pr.OS[1] = v
		case "osname":
			pr.OS[0] = v
		case "osarch":
			pr.OS[2] = v
		case "osversion":
			pr.OS[3] = v
		}
		l := lineage{POMs: []pPOM{{G: "r", A: "root", V: "1.0", Profiles: []pProfile{pr}}}}
		c := makeCase(l)
		vd, err := compare(c)
		if err != nil {
			t.Fatal(err)
		}
		mv, _ := askMaven(repo(c.Files), c.Root)
		fmt.Printf("%-28q maven-active=%v status=%s agree=%v %s\n", v, len(mv.rows) > 0, vd.status, vd.obs == "", vd.detail)
	}
}
