package c15

import (
	"fmt"
	"strings"
	"testing"
	"time"

	"deps.dev/util/maven"
	"deps.dev/util/resolve/verifh/internal/ev"
	"pgregory.net/rapid"
)

// tableCase is a property table plus strings to interpolate with it.
type tableCase struct {
	Props   [][2]string `json:"props"`
	Group   string      `json:"group"`
	Version string      `json:"version"`
	PGroup  string      `json:"parent_group"`
	PVer    string      `json:"parent_version"`
	Texts   []string    `json:"texts"`
}

// dictOf is the documented property map: explicit properties (the last
// definition wins), project built-ins under pom./project. prefixes (not
// overridable) and without prefix (overridable).
func dictOf(c tableCase) map[string]string {
	m := map[string]string{}
	for _, kv := range c.Props {
		m[kv[0]] = kv[1]
	}
	add := func(k, v string) {
		if v == "" {
			return
		}
		if _, ok := m[k]; !ok {
			m[k] = v
		}
		m["pom."+k] = v
		m["project."+k] = v
	}
	add("groupId", c.Group)
	add("version", c.Version)
	add("parent.groupId", c.PGroup)
	add("parent.version", c.PVer)
	return m
}

// refExpand is the fix-point reference: every placeholder whose key is defined
// and not currently being expanded is replaced by the expansion of its value;
// all others stay in place. clean reports whether nothing was left in place.
func refExpand(s string, dict map[string]string, stack map[string]bool, depth int) (string, bool) {
	clean := true
	var sb strings.Builder
	for {
		i := strings.Index(s, "${")
		if i < 0 {
			break
		}
		j := strings.Index(s[i:], "}")
		if j < 0 {
			break
		}
		sb.WriteString(s[:i])
		key := s[i+2 : i+j]
		val, ok := dict[key]
		if !ok || stack[key] || depth > 64 {
			sb.WriteString(s[i : i+j+1])
			clean = false
		} else {
			stack[key] = true
			v, c := refExpand(val, dict, stack, depth+1)
			stack[key] = false
			sb.WriteString(v)
			if !c {
				clean = false
			}
		}
		s = s[i+j+1:]
	}
	sb.WriteString(s)
	return sb.String(), clean
}

// partialExpansion reports whether out can be obtained from text by replacing
// some placeholders with (partial expansions of) their values, leaving every
// other placeholder, all undefined ones and all re-entrant ones literally in place.
func partialExpansion(out, text string, dict map[string]string) bool {
	var match func(text string, starts map[int]bool, stack map[string]bool, depth int) map[int]bool
	match = func(text string, starts map[int]bool, stack map[string]bool, depth int) map[int]bool {
		cur := starts
		step := func(f func(p int, add func(int))) {
			next := map[int]bool{}
			for p := range cur {
				f(p, func(q int) { next[q] = true })
			}
			cur = next
		}
		lit := func(l string) {
			if l == "" {
				return
			}
			step(func(p int, add func(int)) {
				if strings.HasPrefix(out[p:], l) {
					add(p + len(l))
				}
			})
		}
		s := text
		for len(cur) > 0 {
			i := strings.Index(s, "${")
			if i < 0 {
				break
			}
			j := strings.Index(s[i:], "}")
			if j < 0 {
				break
			}
			lit(s[:i])
			ph := s[i : i+j+1]
			key := s[i+2 : i+j]
			val, defined := dict[key]
			step(func(p int, add func(int)) {
				if strings.HasPrefix(out[p:], ph) {
					add(p + len(ph))
				}
				if defined && !stack[key] && depth < 24 {
					stack[key] = true
					for q := range match(val, map[int]bool{p: true}, stack, depth+1) {
						add(q)
					}
					stack[key] = false
				}
			})
			s = s[i+j+1:]
		}
		lit(s)
		return cur
	}
	return match(text, map[int]bool{0: true}, map[string]bool{}, 0)[len(out)]
}

func runInterpolate(c tableCase) (out []string, kept []bool, depVersions []string, hung bool) {
	type res struct {
		out  []string
		kept []bool
		vers []string
	}
	ch := make(chan res, 1)
	go func() {
		var r res
		for _, txt := range c.Texts {
			p := maven.Project{ProjectKey: maven.ProjectKey{GroupID: maven.String(c.Group), ArtifactID: "a", Version: maven.String(c.Version)}}
			p.Parent.GroupID, p.Parent.Version = maven.String(c.PGroup), maven.String(c.PVer)
			for _, kv := range c.Props {
				p.Properties.Properties = append(p.Properties.Properties, maven.Property{Name: kv[0], Value: kv[1]})
			}
			p.Packaging = maven.String(txt)
			p.SCM.URL = maven.String(txt)
			p.Dependencies = []maven.Dependency{{GroupID: "g", ArtifactID: "a", Version: maven.String(txt)}}
			if err := p.Interpolate(); err != nil {
				r.out = append(r.out, "ERROR: "+err.Error())
				r.kept = append(r.kept, false)
				r.vers = append(r.vers, "")
				continue
			}
			if p.Packaging != p.SCM.URL {
				r.out = append(r.out, fmt.Sprintf("ERROR: packaging %q and scm url %q interpolate differently", p.Packaging, p.SCM.URL))
			} else {
				r.out = append(r.out, string(p.Packaging))
			}
			r.kept = append(r.kept, len(p.Dependencies) == 1)
			if len(p.Dependencies) == 1 {
				r.vers = append(r.vers, string(p.Dependencies[0].Version))
			} else {
				r.vers = append(r.vers, "")
			}
		}
		ch <- r
	}()
	tm := time.NewTimer(20 * time.Second)
	defer tm.Stop()
	select {
	case r := <-ch:
		return r.out, r.kept, r.vers, false
	case <-tm.C:
		return nil, nil, nil, true
	}
}

func tableViolation(c tableCase) string {
	out, kept, vers, hung := runInterpolate(c)
	if hung {
		return "Interpolate did not return within 20 s"
	}
	dict := dictOf(c)
	for i, txt := range c.Texts {
		full, clean := refExpand(txt, dict, map[string]bool{}, 0)
		if strings.HasPrefix(out[i], "ERROR: ") {
			return fmt.Sprintf("interpolating %q: %s", txt, out[i])
		}
		if clean {
			if out[i] != full {
				return fmt.Sprintf("interpolating %q gives %q; every placeholder is resolvable and the expansion is %q", txt, out[i], full)
			}
			if !kept[i] || vers[i] != full {
				return fmt.Sprintf("a dependency with version %q is kept=%v with version %q; every placeholder is resolvable and the expansion is %q", txt, kept[i], vers[i], full)
			}
			continue
		}
		// Something cannot be resolved: the output must be the input with some
		// placeholders (recursively) expanded and all others left in place.
		if !partialExpansion(out[i], txt, dict) {
			return fmt.Sprintf("interpolating %q gives %q, which is not the input with some placeholders expanded and the others left in place (full expansion: %q)", txt, out[i], full)
		}
		if !strings.Contains(out[i], "${") {
			return fmt.Sprintf("interpolating %q gives %q: the unresolvable placeholder is gone", txt, out[i])
		}
		if kept[i] {
			return fmt.Sprintf("a dependency with version %q is kept (as %q) although a placeholder cannot be resolved", txt, vers[i])
		}
	}
	return ""
}

var tableKeys = []string{"a", "b", "c", "d", "version", "groupId", "project.version", "pom.groupId", "parent.version", "x.y"}

func drawText(t *rapid.T) string {
	var sb strings.Builder
	for i, n := 0, rapid.IntRange(0, 3).Draw(t, "nparts"); i < n; i++ {
		switch rapid.IntRange(0, 9).Draw(t, "part") {
		case 0:
			sb.WriteString(rapid.SampledFrom([]string{"1", "-", ".", "x", "}", "$", "{", " "}).Draw(t, "lit"))
		case 1:
			sb.WriteString("${") // unterminated
		case 2:
			sb.WriteString("${undefined}")
		case 3:
			sb.WriteString("${" + rapid.SampledFrom(tableKeys).Draw(t, "k1") + "${" + rapid.SampledFrom(tableKeys).Draw(t, "k2") + "}}")
		case 4:
			sb.WriteString("${}")
		default:
			sb.WriteString("${" + rapid.SampledFrom(tableKeys).Draw(t, "k") + "}")
		}
	}
	return sb.String()
}

func tableProp(t *rapid.T) {
	var c tableCase
	for i, n := 0, rapid.IntRange(1, 8).Draw(t, "nprops"); i < n; i++ {
		c.Props = append(c.Props, [2]string{rapid.SampledFrom(tableKeys).Draw(t, "key"), drawText(t)})
	}
	c.Group = rapid.SampledFrom([]string{"", "grp", "${a}"}).Draw(t, "group")
	c.Version = rapid.SampledFrom([]string{"", "1.0", "${b}", "${version}", "${project.version}"}).Draw(t, "version")
	c.PGroup = rapid.SampledFrom([]string{"", "pg"}).Draw(t, "pgroup")
	c.PVer = rapid.SampledFrom([]string{"", "2.0", "${c}"}).Draw(t, "pver")
	for i, n := 0, rapid.IntRange(1, 3).Draw(t, "ntexts"); i < n; i++ {
		c.Texts = append(c.Texts, drawText(t))
	}
	rec.SetCase(c)
	rec.Eval(1)
	dict := dictOf(c)
	cyc := false
	for _, txt := range c.Texts {
		if _, clean := refExpand(txt, dict, map[string]bool{}, 0); !clean && strings.Contains(txt, "${") {
			cyc = true
		}
	}
	if cyc {
		rec.NonTrivial(fmt.Sprint(c))
		rec.Class("unresolvable-placeholder")
		if rec.WantSample() {
			rec.Sample(c)
		}
	}
	if obs := tableViolation(c); obs != "" {
		rec.Fail(t, c, obs, "terminates; resolvable placeholders expanded, unresolved ones left in place")
	}
}

func TestInterpolationTables(t *testing.T) {
	rec.Check(t, "interpolation-tables", ev.N(20000, 2000000), tableProp)
}
