// C15 — the effective POM computed from a project lineage equals Maven's.
package c15

import (
	"encoding/base64"
	"encoding/json"
	"encoding/xml"
	"errors"
	"fmt"
	"os"
	"sort"
	"strings"
	"testing"

	"deps.dev/util/maven"
	"deps.dev/util/resolve/verifh/internal/ev"
	"deps.dev/util/resolve/verifh/internal/known"
	"deps.dev/util/resolve/verifh/internal/oracle"
	"pgregory.net/rapid"
)

var rec = ev.New("C15")
var kf *known.File
var eff *oracle.Server

func TestMain(m *testing.M) {
	kf, _ = known.Load(ev.KnownFile())
	rec.Rule("generated POM lineages (root + 0-4 ancestors + 0-3 imported BOMs with 0-2 ancestors each, BOMs importing BOMs) rendered to pom.xml text; both sides read the same text. Go side: encoding/xml into maven.Project, MergeProfiles(JDK 11.0.8, the library's OS settings) on every level, MergeParent up the chain, Interpolate, ProcessDependencies whose callback applies the same pipeline to the imported BOM (as examples/go/maven_parse_resolve does). Oracle: maven-model-builder 3.8.7 in a JVM started with the same os.name/arch/version and java.version=11.0.8, in-memory ModelResolver, effective model's dependencies and dependencyManagement in order. Comparison field by field (group, artifact, version, type, classifier, scope, optional, exclusions, order) after Maven's default injections (type jar; scope compile on dependencies; optional empty = false); entries Maven leaves with an unresolved ${...} are dropped by the library by documented design and are removed from Maven's list before comparing. Lineages on which Maven reports an ERROR are outside the domain (counted). Termination clause: interpolation over arbitrary property tables (self-reference, cycles, undefined keys, unterminated ${) returns and leaves unresolved placeholders in place, checked against a fix-point reference. One evaluation = one lineage (or one property table). Non-trivial lineage: >= 1 ancestor and (a property defined at two levels, or an active non-default profile, or an import, or a duplicate declaration). Distinct = distinct rendered lineage. The optional flag is compared as the boolean each side makes of it; decoded POMs are kept per case and BOMs may share a parent; check merge-isolation: one decoded parent merged into two children (interleaved or not) gives each child what it gets with a parent decoded for it alone.")
	code := m.Run()
	if eff != nil {
		eff.Close()
	}
	rec.Flush()
	os.Exit(code)
}

// ---- model ------------------------------------------------------------------------

type pDep struct {
	G, A, V, Type, Classifier, Scope, Optional string
	Excl                                       [][2]string `json:",omitempty"`
}

type pProfile struct {
	ID        string
	Default   string      `json:",omitempty"` // activeByDefault text
	JDK       string      `json:",omitempty"`
	OS        [4]string   // name, family, arch, version
	PropName  string      `json:",omitempty"`
	PropValue string      `json:",omitempty"`
	Props     [][2]string `json:",omitempty"`
	Deps      []pDep      `json:",omitempty"`
	Mgmt      []pDep      `json:",omitempty"`
}

type pPOM struct {
	G, A, V   string     // G and V may be empty (inherited)
	Parent    *[3]string `json:",omitempty"`
	Packaging string     `json:",omitempty"`
	Props     [][2]string
	Deps      []pDep     `json:",omitempty"`
	Mgmt      []pDep     `json:",omitempty"`
	Profiles  []pProfile `json:",omitempty"`
}

type lineage struct {
	POMs []pPOM // root first
}

func esc(s string) string {
	var sb strings.Builder
	xml.EscapeText(&sb, []byte(s))
	return sb.String()
}

func el(sb *strings.Builder, name, val string) {
	if val != "" {
		sb.WriteString("<" + name + ">" + esc(val) + "</" + name + ">")
	}
}

func renderDeps(sb *strings.Builder, ds []pDep) {
	if len(ds) == 0 {
		return
	}
	sb.WriteString("<dependencies>")
	for _, d := range ds {
		sb.WriteString("<dependency>")
		el(sb, "groupId", d.G)
		el(sb, "artifactId", d.A)
		el(sb, "version", d.V)
		el(sb, "type", d.Type)
		el(sb, "classifier", d.Classifier)
		el(sb, "scope", d.Scope)
		el(sb, "optional", d.Optional)
		if len(d.Excl) > 0 {
			sb.WriteString("<exclusions>")
			for _, e := range d.Excl {
				sb.WriteString("<exclusion>")
				el(sb, "groupId", e[0])
				el(sb, "artifactId", e[1])
				sb.WriteString("</exclusion>")
			}
			sb.WriteString("</exclusions>")
		}
		sb.WriteString("</dependency>")
	}
	sb.WriteString("</dependencies>")
}

func renderProps(sb *strings.Builder, ps [][2]string) {
	if len(ps) == 0 {
		return
	}
	sb.WriteString("<properties>")
	for _, p := range ps {
		sb.WriteString("<" + p[0] + ">" + esc(p[1]) + "</" + p[0] + ">")
	}
	sb.WriteString("</properties>")
}

func (p pPOM) key() string {
	g, v := p.G, p.V
	if g == "" && p.Parent != nil {
		g = p.Parent[0]
	}
	if v == "" && p.Parent != nil {
		v = p.Parent[2]
	}
	return g + ":" + p.A + ":" + v
}

func (p pPOM) render() string {
	var sb strings.Builder
	sb.WriteString("<project><modelVersion>4.0.0</modelVersion>")
	if p.Parent != nil {
		sb.WriteString("<parent>")
		el(&sb, "groupId", p.Parent[0])
		el(&sb, "artifactId", p.Parent[1])
		el(&sb, "version", p.Parent[2])
		sb.WriteString("</parent>")
	}
	el(&sb, "groupId", p.G)
	el(&sb, "artifactId", p.A)
	el(&sb, "version", p.V)
	el(&sb, "packaging", p.Packaging)
	renderProps(&sb, p.Props)
	if len(p.Mgmt) > 0 {
		sb.WriteString("<dependencyManagement>")
		renderDeps(&sb, p.Mgmt)
		sb.WriteString("</dependencyManagement>")
	}
	renderDeps(&sb, p.Deps)
	if len(p.Profiles) > 0 {
		sb.WriteString("<profiles>")
		for _, pr := range p.Profiles {
			sb.WriteString("<profile>")
			el(&sb, "id", pr.ID)
			var act strings.Builder
			el(&act, "activeByDefault", pr.Default)
			el(&act, "jdk", pr.JDK)
			if pr.OS != [4]string{} {
				act.WriteString("<os>")
				el(&act, "name", pr.OS[0])
				el(&act, "family", pr.OS[1])
				el(&act, "arch", pr.OS[2])
				el(&act, "version", pr.OS[3])
				act.WriteString("</os>")
			}
			if pr.PropName != "" {
				act.WriteString("<property>")
				el(&act, "name", pr.PropName)
				el(&act, "value", pr.PropValue)
				act.WriteString("</property>")
			}
			if act.Len() > 0 {
				sb.WriteString("<activation>" + act.String() + "</activation>")
			}
			renderProps(&sb, pr.Props)
			if len(pr.Mgmt) > 0 {
				sb.WriteString("<dependencyManagement>")
				renderDeps(&sb, pr.Mgmt)
				sb.WriteString("</dependencyManagement>")
			}
			renderDeps(&sb, pr.Deps)
			sb.WriteString("</profile>")
		}
		sb.WriteString("</profiles>")
	}
	sb.WriteString("</project>")
	return sb.String()
}

// ---- Go pipeline ---------------------------------------------------------------------

type repo map[string]string // key -> pom.xml text

// decoded holds each file decoded once per case (compare resets it): a caller
// that keeps decoded projects and merges one parent into several children is
// the ordinary way to use the package, and nothing merged into a child may
// show up in another child of the same parent.
var decoded = map[string]maven.Project{}

func (r repo) fetch(pk maven.ProjectKey) (maven.Project, error) {
	key := string(pk.GroupID) + ":" + string(pk.ArtifactID) + ":" + string(pk.Version)
	if p, ok := decoded[key]; ok {
		return p, nil
	}
	x, ok := r[key]
	if !ok {
		return maven.Project{}, errors.New("not found")
	}
	var p maven.Project
	if err := xml.Unmarshal([]byte(x), &p); err != nil {
		return maven.Project{}, err
	}
	decoded[key] = p
	return p, nil
}

const maxParent = 100

// mergeParents is examples/go/maven_parse_resolve's function over the in-memory
// repository.
func (r repo) mergeParents(current maven.ProjectKey, start int, result *maven.Project) error {
	visited := map[maven.ProjectKey]bool{}
	for n := start; n < maxParent; n++ {
		if current.GroupID == "" || current.ArtifactID == "" || current.Version == "" {
			break
		}
		if visited[current] {
			return errors.New("cycle of parent projects")
		}
		visited[current] = true
		proj, err := r.fetch(current)
		if err != nil {
			return err
		}
		if n > 0 && proj.Packaging != "pom" {
			return fmt.Errorf("invalid packaging for parent project %s", proj.Packaging)
		}
		if err := proj.MergeProfiles(maven.JDKProfileActivation, maven.OSProfileActivation); err != nil {
			return err
		}
		result.MergeParent(proj)
		current = proj.Parent.ProjectKey
	}
	return result.Interpolate()
}

// effectiveOf applies the documented pipeline to one POM of the repository:
// decode, profiles, parents, interpolation.
func (r repo) effectiveOf(pk maven.ProjectKey) (maven.Project, error) {
	project, err := r.fetch(pk)
	if err != nil {
		return maven.Project{}, err
	}
	if err := project.MergeProfiles(maven.JDKProfileActivation, maven.OSProfileActivation); err != nil {
		return maven.Project{}, err
	}
	if err := r.mergeParents(project.Parent.ProjectKey, 1, &project); err != nil {
		return maven.Project{}, err
	}
	return project, nil
}

func (r repo) goEffective(rootKey string) (maven.Project, error) {
	parts := strings.SplitN(rootKey, ":", 3)
	project, err := r.effectiveOf(maven.ProjectKey{GroupID: maven.String(parts[0]), ArtifactID: maven.String(parts[1]), Version: maven.String(parts[2])})
	if err != nil {
		return maven.Project{}, err
	}
	project.ProcessDependencies(func(g, a, v maven.String) (maven.DependencyManagement, error) {
		bom, err := r.effectiveOf(maven.ProjectKey{GroupID: g, ArtifactID: a, Version: v})
		if err != nil {
			return maven.DependencyManagement{}, err
		}
		return bom.DependencyManagement, nil
	})
	return project, nil
}

// ---- comparison -------------------------------------------------------------------------

type row struct {
	Kind, G, A, V, Type, Classifier, Scope, Optional, Excl string
}

func (r row) String() string {
	return fmt.Sprintf("%s %s:%s:%s type=%s classifier=%q scope=%q optional=%q excl=[%s]", r.Kind, r.G, r.A, r.V, r.Type, r.Classifier, r.Scope, r.Optional, r.Excl)
}

func normRow(r row) row {
	if r.Type == "" {
		r.Type = "jar"
	}
	if r.Kind == "D" && r.Scope == "" {
		r.Scope = "compile"
	}
	if strings.EqualFold(r.Optional, "true") {
		r.Optional = "true"
	} else if !unresolved(r.Optional) {
		r.Optional = "false"
	}
	return r
}

func unresolved(s string) bool {
	i := strings.Index(s, "${")
	return i >= 0 && strings.Contains(s[i+2:], "}")
}

func goRows(p maven.Project) []row {
	var out []row
	conv := func(kind string, d maven.Dependency) row {
		var ex []string
		for _, e := range d.Exclusions {
			ex = append(ex, string(e.GroupID)+":"+string(e.ArtifactID))
		}
		// the optional flag is compared as the boolean each side makes of it
		// (Maven: Boolean.parseBoolean, i.e. "true" in any letter case)
		opt := d.Optional
		optional := "false"
		if opt.Boolean() {
			optional = "true"
		}
		return normRow(row{kind, string(d.GroupID), string(d.ArtifactID), string(d.Version), string(d.Type), string(d.Classifier), string(d.Scope), optional, strings.Join(ex, ",")})
	}
	for _, d := range p.Dependencies {
		out = append(out, conv("D", d))
	}
	for _, d := range p.DependencyManagement.Dependencies {
		out = append(out, conv("M", d))
	}
	return out
}

type mvnResult struct {
	rows     []row
	dropped  int // entries with unresolved placeholders
	warnings []string
	err      string
}

func askMaven(r repo, rootKey string) (mvnResult, error) {
	fields := []string{"build", rootKey}
	keys := make([]string, 0, len(r))
	for k := range r {
		keys = append(keys, k)
	}
	sort.Strings(keys)
	for _, k := range keys {
		fields = append(fields, k, base64.StdEncoding.EncodeToString([]byte(r[k])))
	}
	ans, err := eff.Ask(fields...)
	if err != nil {
		return mvnResult{}, err
	}
	st, rest, _ := strings.Cut(ans, "\t")
	switch st {
	case "ERR":
		return mvnResult{err: rest}, nil
	case "OK":
	default:
		return mvnResult{}, fmt.Errorf("oracle protocol: %q", ans)
	}
	b, err := base64.StdEncoding.DecodeString(rest)
	if err != nil {
		return mvnResult{}, err
	}
	var res mvnResult
	for _, line := range strings.Split(strings.TrimRight(string(b), "\n"), "\n") {
		if line == "" {
			continue
		}
		if w, ok := strings.CutPrefix(line, "W "); ok {
			res.warnings = append(res.warnings, w)
			continue
		}
		f := strings.Split(line, "\x1f")
		if len(f) != 9 {
			return mvnResult{}, fmt.Errorf("oracle protocol: bad row %q", line)
		}
		rw := row{f[0], f[1], f[2], f[3], f[4], f[5], f[6], f[7], f[8]}
		if unresolved(rw.G) || unresolved(rw.A) || unresolved(rw.V) || unresolved(rw.Type) || unresolved(rw.Classifier) || unresolved(rw.Scope) || unresolved(rw.Optional) {
			res.dropped++
			if os.Getenv("C15_DUMPERR") != "" {
				fmt.Fprintln(os.Stderr, "UNRES", rw)
			}
			continue
		}
		res.rows = append(res.rows, normRow(rw))
	}
	return res, nil
}

type lineageCase struct {
	Lineage lineage           `json:"lineage"`
	Files   map[string]string `json:"files"` // what both sides read
	Root    string            `json:"root"`
}

func makeCase(l lineage) lineageCase {
	c := lineageCase{Lineage: l, Files: map[string]string{}}
	for i, p := range l.POMs {
		c.Files[p.key()] = p.render()
		if i == 0 {
			c.Root = p.key()
		}
	}
	return c
}

type verdict struct {
	status   string // ok | maven-error | go-error
	obs, exp string
	dropped  int
	detail   string
}

func dropRepeats(rs []row) []row {
	seen := map[row]bool{}
	var out []row
	for _, r := range rs {
		if !seen[r] {
			seen[r] = true
			out = append(out, r)
		}
	}
	return out
}

func compare(c lineageCase) (verdict, error) {
	r := repo(c.Files)
	decoded = map[string]maven.Project{}
	mv, err := askMaven(r, c.Root)
	if err != nil {
		return verdict{}, err
	}
	if mv.err != "" {
		return verdict{status: "maven-error", detail: mv.err}, nil
	}
	gp, gerr := r.goEffective(c.Root)
	if gerr != nil {
		return verdict{status: "go-error", detail: gerr.Error(), obs: "the pipeline fails with " + gerr.Error() + " on a lineage Maven builds without error", exp: "same effective dependencies as Maven"}, nil
	}
	// A declaration written twice in one list stays twice in Maven's effective
	// model when nothing is merged into the list (Maven only warns); the
	// library records a key once. Rows that repeat an earlier row exactly say
	// nothing more and are left out on both sides.
	got := dropRepeats(goRows(gp))
	want := dropRepeats(mv.rows)
	show := func(rs []row) string {
		var sb strings.Builder
		for _, x := range rs {
			sb.WriteString("  " + x.String() + "\n")
		}
		return sb.String()
	}
	same := len(got) == len(want)
	if same {
		for i := range got {
			if got[i] != want[i] {
				same = false
				break
			}
		}
	}
	if !same {
		return verdict{status: "ok", dropped: mv.dropped, obs: "effective dependencies differ from Maven's\n--- library ---\n" + show(got) + "--- maven-model-builder ---\n" + show(want), exp: "identical lists"}, nil
	}
	return verdict{status: "ok", dropped: mv.dropped}, nil
}

// ---- generation ---------------------------------------------------------------------------

var (
	depGroups    = []string{"g", "h"}
	depArtifacts = []string{"a1", "a2", "a3", "a4"}
	propNames    = []string{"v1", "v2", "v3", "sc", "opt", "isOpt", "depScope"}
)

type genOpts struct {
	dupSameList   string // lists in which a key may occur twice: any of deps mgmt profdeps profmgmt bommgmt
	noProfileDups bool   // keys unique across the model and the profiles of one POM
	undefined     bool   // set per lineage: some dependencies use an undefined property
	noKeyPH       bool   // no placeholders in groupId/artifactId/type/classifier
	jdkOdd        bool   // negated and single-digit JDK activations
	osOdd         bool   // OS families Maven does not enumerate
}

func drawDep(t *rapid.T, managed bool, o genOpts) pDep {
	d := pDep{G: rapid.SampledFrom(depGroups).Draw(t, "g"), A: rapid.SampledFrom(depArtifacts).Draw(t, "a")}
	d.V = rapid.SampledFrom([]string{"1.0", "2.0", "${v1}", "${v2}", "${v3}", "${project.version}", "", "", "[1,2)", "${project.parent.version}", "${version}", "${pom.version}", "1.${v1}", "${project.groupId}.1"}).Draw(t, "v")
	if managed && d.V == "" {
		d.V = "3.0"
	}
	if o.undefined && rapid.IntRange(0, 9).Draw(t, "undefined") == 0 {
		d.V = "${undefinedprop}"
	}
	switch rapid.IntRange(0, 9).Draw(t, "extras") {
	case 0:
		d.Type = rapid.SampledFrom([]string{"jar", "pom", "test-jar", "war"}).Draw(t, "type")
	case 1:
		d.Classifier = rapid.SampledFrom([]string{"sources", "tests"}).Draw(t, "classifier")
	}
	if !o.noKeyPH && rapid.IntRange(0, 11).Draw(t, "keyph") == 0 {
		switch rapid.IntRange(0, 3).Draw(t, "whichkey") {
		case 0:
			d.G = "${gp}"
		case 1:
			d.A = "${ap}"
		case 2:
			d.Type = "${tp}"
		case 3:
			d.Classifier = "${cp}"
		}
	}
	if !o.noKeyPH && rapid.IntRange(0, 15).Draw(t, "projkey") == 0 {
		// sibling modules are commonly declared with the project's own groupId
		// (${project.artifactId} is a recorded finding, project-artifactid-undefined,
		// and is left out here by construction)
		d.G = "${project.groupId}"
	}
	d.Scope = rapid.SampledFrom([]string{"", "", "", "compile", "test", "provided", "runtime", "${sc}", "${depScope}"}).Draw(t, "scope")
	d.Optional = rapid.SampledFrom([]string{"", "", "", "true", "false", "${opt}", "${isOpt}"}).Draw(t, "optional")
	for i, n := 0, rapid.SampledFrom([]int{0, 0, 0, 1, 2}).Draw(t, "nex"); i < n; i++ {
		e := [2]string{rapid.SampledFrom([]string{"g", "h", "*"}).Draw(t, "eg"), rapid.SampledFrom([]string{"a1", "a2", "*"}).Draw(t, "ea")}
		if rapid.IntRange(0, 5).Draw(t, "exph") == 0 {
			e[0] = rapid.SampledFrom([]string{"${gp}", "${project.groupId}", "${undefinedprop}"}).Draw(t, "exphv")
		}
		d.Excl = append(d.Excl, e)
	}
	return d
}

func drawDepList(t *rapid.T, managed bool, max int, o genOpts, where string) []pDep {
	var out []pDep
	seen := map[string]bool{}
	first := map[string]pDep{}
	for i, n := 0, rapid.IntRange(0, max).Draw(t, "ndeps"); i < n; i++ {
		d := drawDep(t, managed, o)
		ty := d.Type
		if ty == "" {
			ty = "jar"
		}
		k := d.G + ":" + d.A + ":" + ty + ":" + d.Classifier
		if seen[k] && !strings.Contains(","+o.dupSameList+",", ","+where+",") {
			// A key declared twice with different content is a recorded finding
			// (maven-same-list-duplicates); the same declaration written twice
			// (Maven only warns) is inside the domain: whatever is done with the
			// key must not depend on which copy is looked at.
			if !strings.Contains(k, "${") && rapid.IntRange(0, 2).Draw(t, "identicaldup") == 0 {
				out = append(out, first[k])
			}
			continue
		}
		if !seen[k] {
			first[k] = d
		}
		seen[k] = true
		out = append(out, d)
	}
	return out
}

func drawProps(t *rapid.T, max int) [][2]string {
	var out [][2]string
	seen := map[string]bool{}
	for i, n := 0, rapid.IntRange(0, max).Draw(t, "nprops"); i < n; i++ {
		k := rapid.SampledFrom(propNames).Draw(t, "pk")
		if seen[k] {
			continue
		}
		seen[k] = true
		var v string
		switch k {
		case "sc", "depScope":
			v = rapid.SampledFrom([]string{"test", "runtime", "provided", "compile"}).Draw(t, "pv")
		case "opt", "isOpt":
			v = rapid.SampledFrom([]string{"true", "false", "true", "false", "TRUE", "False"}).Draw(t, "pv")
		default:
			v = rapid.SampledFrom([]string{"1.1", "3.0", "4.5", "${v2}", "${v3}", "${project.version}", "${project.parent.version}", "${version}", "${project.groupId}", " 5.0 ", "${v3}-x"}).Draw(t, "pv")
			// no property cycles in lineages: v1 may use v2,v3; v2 may use v3; v3 none
			if k == "v2" && v == "${v2}" {
				v = "${v3}"
			}
			if k == "v3" && strings.Contains(v, "${v") {
				v = "7.0"
			}
		}
		out = append(out, [2]string{k, v})
	}
	return out
}

func drawProfiles(t *rapid.T, boms []string, o genOpts) []pProfile {
	var out []pProfile
	for i, n := 0, rapid.SampledFrom([]int{0, 0, 1, 1, 2, 3}).Draw(t, "nprofiles"); i < n; i++ {
		pr := pProfile{ID: fmt.Sprintf("p%d", i)}
		switch rapid.IntRange(0, 5).Draw(t, "act") {
		case 0:
			pr.Default = rapid.SampledFrom([]string{"true", "true", "false"}).Draw(t, "abd")
		case 1, 2:
			pr.JDK = rapid.SampledFrom([]string{"11", "11.0", "11.0.8", "1.8", "17", "[1.8,)", "[11,12)", "(,11]", "[11.0.8,)", "(11.0.8,)", "[9,11.0.8)", "1.7", "11.0.9", "[1.8,11.0.8]", "[12,)", "!1.8", "!11", "!17", "!11.0", "11.", "[11.0,11.1)", "(,12)", "(,11.0.8)", "1.8+", "11.0.8_1", "11-ea", "12", "1.1"}).Draw(t, "jdk")
			if o.jdkOdd {
				pr.JDK = rapid.SampledFrom([]string{"!1.8", "!11", "1", "!1", "11.", "[11.0.8]", "(,11.0.8)", "[11.0,11.1)", "1.8+", "[1.8,11),[11.0.5,12)", "11.0.8_1", "11-ea"}).Draw(t, "jdkodd")
			}
		case 3:
			pr.OS = [4]string{
				rapid.SampledFrom([]string{"", "linux", "Linux", "!linux", "windows", "mac os x"}).Draw(t, "osname"),
				rapid.SampledFrom(map[bool][]string{false: {"", "unix", "Unix", "windows", "!windows", "!unix", "mac"}, true: {"linux", "!linux", "lin", "os/2", "dos", "!dos", "netware", "win9x", "z/os", "openvms", "nix"}}[o.osOdd]).Draw(t, "osfamily"),
				rapid.SampledFrom([]string{"", "", "amd64", "x86", "!x86", "AMD64"}).Draw(t, "osarch"),
				rapid.SampledFrom([]string{"", "", "", "5.10.0-26-cloud-amd64", "!5.10.0-26-cloud-amd64", "4.0"}).Draw(t, "osver"),
			}
		case 4:
			pr.PropName = rapid.SampledFrom([]string{"absentprop", "!absentprop"}).Draw(t, "pn")
			if pr.PropName == "absentprop" {
				pr.PropValue = rapid.SampledFrom([]string{"", "x", "!x"}).Draw(t, "pvv")
			}
		case 5:
			// two criteria: all must hold (Maven >= 3.2.2)
			pr.JDK = rapid.SampledFrom([]string{"11", "1.8", "[11,)"}).Draw(t, "jdk2")
			pr.OS = [4]string{"", rapid.SampledFrom([]string{"unix", "windows"}).Draw(t, "osfamily2"), "", ""}
		}
		pr.Props = drawProps(t, 2)
		pr.Deps = drawDepList(t, false, 3, o, "profdeps")
		pr.Mgmt = drawDepList(t, true, 3, o, "profmgmt")
		if len(boms) > 0 && rapid.IntRange(0, 4).Draw(t, "profimport") == 0 {
			pr.Mgmt = append(pr.Mgmt, importOf(rapid.SampledFrom(boms).Draw(t, "pbom")))
		}
		out = append(out, pr)
	}
	return out
}

func importOf(key string) pDep {
	p := strings.SplitN(key, ":", 3)
	return pDep{G: p[0], A: p[1], V: p[2], Type: "pom", Scope: "import"}
}

func drawLineage(t *rapid.T, o genOpts) lineage {
	var l lineage
	o.undefined = rapid.IntRange(0, 14).Draw(t, "lineage-with-undefined") == 0
	// BOMs first (so that importers can name them); BOM i may import BOM j>i.
	nb := rapid.SampledFrom([]int{0, 0, 1, 1, 2, 3}).Draw(t, "nboms")
	var bomKeys []string
	for i := 0; i < nb; i++ {
		bomKeys = append(bomKeys, fmt.Sprintf("bom:b%d:%d.0", i, i+1))
	}
	var bomPOMs []pPOM
	for i := 0; i < nb; i++ {
		chain := rapid.IntRange(0, 2).Draw(t, "bomancestors")
		for lvl := 0; lvl <= chain; lvl++ {
			p := pPOM{G: "bom", A: fmt.Sprintf("b%d", i), V: fmt.Sprintf("%d.0", i+1), Packaging: "pom"}
			if lvl > 0 {
				p.A = fmt.Sprintf("b%dp%d", i, lvl)
			}
			if lvl < chain {
				p.Parent = &[3]string{"bom", fmt.Sprintf("b%dp%d", i, lvl+1), p.V}
				if rapid.Bool().Draw(t, "inheritgv") {
					p.G = ""
					if rapid.Bool().Draw(t, "inheritv") {
						p.V = ""
					}
				}
			}
			p.Props = drawProps(t, 3)
			p.Mgmt = drawDepList(t, true, 4, o, "bommgmt")
			if i+1 < nb && rapid.IntRange(0, 3).Draw(t, "bomimport") == 0 {
				p.Mgmt = append(p.Mgmt, importOf(bomKeys[rapid.IntRange(i+1, nb-1).Draw(t, "bomtarget")]))
			}
			if rapid.IntRange(0, 3).Draw(t, "bomprofiles") == 0 {
				p.Profiles = drawProfiles(t, nil, o)
			}
			bomPOMs = append(bomPOMs, p)
		}
	}
	// Two BOMs may share a parent (one decoded parent merged into two
	// children): a later BOM without ancestors of its own adopts the first
	// ancestor of BOM 0.
	shared := -1
	for i, p := range bomPOMs {
		if p.A == "b0p1" {
			shared = i
		}
	}
	if shared >= 0 {
		for i := range bomPOMs {
			p := &bomPOMs[i]
			if p.Parent == nil && p.A != "b0" && !strings.Contains(p.A, "p") && rapid.Bool().Draw(t, "sharedparent") {
				p.Parent = &[3]string{"bom", "b0p1", bomPOMs[shared].V}
			}
		}
	}
	na := rapid.IntRange(0, 4).Draw(t, "nancestors")
	for lvl := 0; lvl <= na; lvl++ {
		p := pPOM{G: "r", A: "root", V: "1.0"}
		if lvl > 0 {
			p.A = fmt.Sprintf("anc%d", lvl)
			p.V = fmt.Sprintf("1.%d", lvl)
			p.Packaging = "pom"
		} else {
			p.Packaging = rapid.SampledFrom([]string{"", "jar", "pom"}).Draw(t, "packaging")
		}
		if lvl < na {
			p.Parent = &[3]string{"r", fmt.Sprintf("anc%d", lvl+1), fmt.Sprintf("1.%d", lvl+1)}
			if rapid.IntRange(0, 2).Draw(t, "inheritg") == 0 {
				p.G = ""
			}
			if rapid.IntRange(0, 3).Draw(t, "inheritv") == 0 {
				p.V = ""
			}
		}
		p.Props = drawProps(t, 4)
		p.Deps = drawDepList(t, false, 4, o, "modeldeps")
		p.Mgmt = drawDepList(t, true, 3, o, "modelmgmt")
		for _, bk := range bomKeys {
			if rapid.IntRange(0, na+1).Draw(t, "import") == 0 {
				p.Mgmt = append(p.Mgmt, importOf(bk))
			}
		}
		if rapid.IntRange(0, 1).Draw(t, "hasprofiles") == 0 {
			p.Profiles = drawProfiles(t, bomKeys, o)
		}
		l.POMs = append(l.POMs, p)
	}
	if o.noProfileDups {
		for i := range l.POMs {
			uniqueAcrossProfiles(&l.POMs[i])
		}
		for i := range bomPOMs {
			uniqueAcrossProfiles(&bomPOMs[i])
		}
	}
	// most lineages define every property the dependencies use somewhere at the top
	if rapid.IntRange(0, 9).Draw(t, "defineall") > 0 {
		top := &l.POMs[len(l.POMs)-1]
		have := map[string]bool{}
		for _, kv := range top.Props {
			have[kv[0]] = true
		}
		for _, kv := range [][2]string{{"v1", "1.5"}, {"v2", "2.5"}, {"v3", "3.5"}, {"sc", "runtime"}, {"opt", "true"}, {"isOpt", "true"}, {"depScope", "provided"}, {"gp", "k"}, {"ap", "a9"}, {"tp", "zip"}, {"cp", "extra"}} {
			if !have[kv[0]] {
				top.Props = append(top.Props, kv)
			}
		}
		for i := range bomPOMs {
			if bomPOMs[i].Parent == nil {
				have := map[string]bool{}
				for _, kv := range bomPOMs[i].Props {
					have[kv[0]] = true
				}
				for _, kv := range [][2]string{{"v1", "1.6"}, {"v2", "2.6"}, {"v3", "3.6"}, {"sc", "test"}, {"opt", "false"}, {"isOpt", "true"}, {"depScope", "runtime"}, {"gp", "k"}, {"ap", "a9"}, {"tp", "zip"}, {"cp", "extra"}} {
					if !have[kv[0]] {
						bomPOMs[i].Props = append(bomPOMs[i].Props, kv)
					}
				}
			}
		}
	}
	// a dependency without version usually has a managed version somewhere;
	// project.parent.* is used where there is a parent
	managedKeys := map[string]bool{}
	for _, ps := range [][]pPOM{l.POMs, bomPOMs} {
		for _, p := range ps {
			for _, d := range p.Mgmt {
				managedKeys[depKey(d)] = true
			}
			for _, pr := range p.Profiles {
				for _, d := range pr.Mgmt {
					managedKeys[depKey(d)] = true
				}
			}
		}
	}
	sloppy := rapid.IntRange(0, 19).Draw(t, "sloppy") == 0
	fixDeps := func(ds []pDep, hasParent bool) {
		for i := range ds {
			if ds[i].V == "" && !managedKeys[depKey(ds[i])] && !sloppy {
				ds[i].V = "2.2"
			}
			if !hasParent && !sloppy {
				ds[i].V = strings.ReplaceAll(ds[i].V, "project.parent.version", "project.version")
			}
		}
	}
	fixPOM := func(p *pPOM, hasParent bool) {
		fixDeps(p.Deps, hasParent)
		fixDeps(p.Mgmt, hasParent)
		for i := range p.Profiles {
			fixDeps(p.Profiles[i].Deps, hasParent)
			fixDeps(p.Profiles[i].Mgmt, hasParent)
			for j := range p.Profiles[i].Props {
				if !hasParent && !sloppy {
					p.Profiles[i].Props[j][1] = strings.ReplaceAll(p.Profiles[i].Props[j][1], "project.parent.version", "project.version")
				}
			}
		}
		for j := range p.Props {
			if !hasParent && !sloppy {
				p.Props[j][1] = strings.ReplaceAll(p.Props[j][1], "project.parent.version", "project.version")
			}
		}
	}
	for i := range l.POMs {
		fixPOM(&l.POMs[i], l.POMs[0].Parent != nil)
	}
	for i := range bomPOMs {
		// the BOM a chain belongs to is the nearest preceding POM named b<N>
		j := i
		for j > 0 && strings.Contains(bomPOMs[j].A, "p") {
			j--
		}
		fixPOM(&bomPOMs[i], bomPOMs[j].Parent != nil)
	}
	// keys of the root chain must be consistent when G/V are inherited
	fixChain(l.POMs)
	fixBOMChains(bomPOMs)
	l.POMs = append(l.POMs, bomPOMs...)
	return l
}

func depKey(d pDep) string {
	ty := d.Type
	if ty == "" {
		ty = "jar"
	}
	return d.G + ":" + d.A + ":" + ty + ":" + d.Classifier
}

func uniqueAcrossProfiles(p *pPOM) {
	seenD, seenM := map[string]bool{}, map[string]bool{}
	filter := func(ds []pDep, seen map[string]bool) []pDep {
		var out []pDep
		for _, d := range ds {
			if seen[depKey(d)] {
				continue
			}
			seen[depKey(d)] = true
			out = append(out, d)
		}
		return out
	}
	p.Deps = filter(p.Deps, seenD)
	p.Mgmt = filter(p.Mgmt, seenM)
	for i := range p.Profiles {
		p.Profiles[i].Deps = filter(p.Profiles[i].Deps, seenD)
		p.Profiles[i].Mgmt = filter(p.Profiles[i].Mgmt, seenM)
	}
}

// fixChain rewrites parent references so that they name the parent's real
// (possibly inherited) coordinates.
func fixChain(ps []pPOM) {
	for i := len(ps) - 1; i >= 0; i-- {
		if ps[i].Parent != nil && i+1 < len(ps) {
			k := strings.SplitN(ps[i+1].key(), ":", 3)
			ps[i].Parent = &[3]string{k[0], k[1], k[2]}
		}
	}
}

func fixBOMChains(ps []pPOM) {
	// BOM chains are laid out consecutively: a POM with a parent is followed by it.
	for i := len(ps) - 1; i >= 0; i-- {
		if ps[i].Parent != nil && i+1 < len(ps) {
			k := strings.SplitN(ps[i+1].key(), ":", 3)
			ps[i].Parent = &[3]string{k[0], k[1], k[2]}
		}
	}
}

// ---- classification ------------------------------------------------------------------------

func nontrivial(l lineage) bool {
	root := l.POMs[0]
	if root.Parent == nil {
		return false
	}
	defs := map[string]int{}
	imports, dupes, profs := 0, 0, 0
	keys := map[string]int{}
	for _, p := range l.POMs {
		seenHere := map[string]bool{}
		for _, kv := range p.Props {
			if !seenHere[kv[0]] {
				defs[kv[0]]++
				seenHere[kv[0]] = true
			}
		}
		for _, d := range append(append([]pDep{}, p.Deps...), p.Mgmt...) {
			if d.Scope == "import" {
				imports++
			}
		}
		for _, d := range p.Deps {
			keys[d.G+":"+d.A+":"+d.Type+":"+d.Classifier]++
		}
		for _, pr := range p.Profiles {
			if pr.Default == "" {
				profs++
			}
			for _, d := range pr.Deps {
				keys[d.G+":"+d.A+":"+d.Type+":"+d.Classifier]++
			}
		}
	}
	for _, n := range defs {
		if n >= 2 {
			return true
		}
	}
	for _, n := range keys {
		if n >= 2 {
			dupes++
		}
	}
	return imports > 0 || dupes > 0 || profs > 0
}

// hasProfileDup reports whether some POM declares one key in its model and in a
// profile, or in two profiles (dependencies or managed dependencies).
func hasProfileDup(l lineage) bool {
	for _, p := range l.POMs {
		for _, pick := range []func(pDeps) []pDep{func(x pDeps) []pDep { return x.d }, func(x pDeps) []pDep { return x.m }} {
			seen := map[string]bool{}
			for _, d := range pick(pDeps{p.Deps, p.Mgmt}) {
				seen[depKey(d)] = true
			}
			for _, pr := range p.Profiles {
				here := map[string]bool{}
				for _, d := range pick(pDeps{pr.Deps, pr.Mgmt}) {
					if seen[depKey(d)] {
						return true
					}
					here[depKey(d)] = true
				}
				for k := range here {
					seen[k] = true
				}
			}
		}
	}
	return false
}

type pDeps struct{ d, m []pDep }

func knownClass(v verdict) string {
	return ""
}

func lineageProp(o genOpts) func(*rapid.T) {
	return func(t *rapid.T) {
		l := drawLineage(t, o)
		c := makeCase(l)
		rec.SetCase(c)
		v, err := compare(c)
		if err != nil {
			t.Fatalf("INCONCLUSIVE oracle: %v", err)
		}
		if v.status == "maven-error" {
			if os.Getenv("C15_DUMPERR") != "" {
				fmt.Fprintln(os.Stderr, "MVNERR", v.detail)
			}
			rec.ExcludedDomain("maven-reports-error")
			return
		}
		if v.dropped > 0 {
			// Maven keeps an entry whose placeholder cannot be resolved (and lets it
			// take part in de-duplication and management); the library documents
			// that it records only what it could resolve. Outside the domain.
			rec.ExcludedDomain("maven-result-has-unresolved-placeholders")
			return
		}
		rec.Eval(1)
		if nontrivial(l) {
			b, _ := json.Marshal(c.Files)
			rec.NonTrivial(string(b))
			if rec.WantSample() && len(b) < 3000 {
				rec.Sample(c.Files)
			}
		}
		if v.obs != "" {
			if cl := knownClass(v); cl != "" {
				rec.ExcludedKnown(cl)
				return
			}
			if os.Getenv("C15_TRIAGE") != "" && hasProfileDup(l) {
				rec.Class("triage-profile-dup")
				return
			}
			rec.Fail(t, c, v.obs, v.exp)
		}
	}
}

func optsFromEnv() genOpts {
	e := os.Getenv("C15_OPT")
	return genOpts{noProfileDups: strings.Contains(e, "noprofdups"), dupSameList: e, noKeyPH: strings.Contains(e, "nokeyph"), jdkOdd: strings.Contains(e, "jdkodd"), osOdd: strings.Contains(e, "osodd")}
}

func needOracle(t *testing.T) bool {
	if eff != nil {
		return true
	}
	s, err := oracle.Start("eff")
	if err != nil {
		t.Logf("oracle eff unavailable: %v", err)
		rec.Extra("oracle_unavailable_eff", true)
		return false
	}
	eff = s
	rec.Extra("oracle_eff", s.Version)
	return true
}

func TestCorpus(t *testing.T) {
	rec.SetCheck("corpus")
	if len(kf.For("C15")) == 0 || !needOracle(t) {
		return
	}
	for _, fd := range kf.For("C15") {
		var c lineageCase
		if err := json.Unmarshal(fd.Witness, &c); err != nil {
			t.Fatalf("bad witness %s: %v", fd.ID, err)
		}
		if v, err := compare(c); err == nil && v.obs != "" {
			rec.Known(fd.ID, fd.Text+" ["+strings.SplitN(v.obs, "\n", 2)[0]+"]")
		}
	}
}

func TestEffectivePOM(t *testing.T) {
	if !needOracle(t) {
		t.Skip("Maven model builder unavailable")
	}
	rec.Check(t, "lineage", ev.N(6000, 600000), lineageProp(optsFromEnv()))
}

func TestReplay(t *testing.T) {
	path := ev.ReplayFile()
	if path == "" {
		t.Skip("no replay file")
	}
	var raw json.RawMessage
	check, err := ev.ReadReplay(path, &raw)
	if err != nil {
		t.Fatal(err)
	}
	if check == "merge-isolation" {
		var c isolationCase
		json.Unmarshal(raw, &c)
		if obs, err := isolationViolation(c); err != nil || obs != "" {
			t.Fatalf("replay fails: %s %v", obs, err)
		}
		return
	}
	if strings.HasPrefix(check, "interpolation") {
		var c tableCase
		json.Unmarshal(raw, &c)
		if obs := tableViolation(c); obs != "" {
			t.Fatal("replay fails: " + obs)
		}
		return
	}
	if !needOracle(t) {
		t.Skip("Maven model builder unavailable")
	}
	var c lineageCase
	json.Unmarshal(raw, &c)
	v, err := compare(c)
	if err != nil {
		t.Skipf("oracle: %v", err)
	}
	if v.obs != "" && knownClass(v) == "" {
		t.Fatalf("replay fails: %s (expected %s)", v.obs, v.exp)
	}
}
