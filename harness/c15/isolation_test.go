package c15

import (
	"encoding/json"
	"encoding/xml"
	"fmt"
	"strings"
	"testing"

	"deps.dev/util/maven"
	"deps.dev/util/resolve/verifh/internal/ev"
	"pgregory.net/rapid"
)

// Merge isolation: a parent decoded once and merged into two children (what a
// caller that keeps decoded POMs does) must give each child the result it gets
// when the parent is decoded afresh for it. Call order is drawn: both merges
// first, then the interpolations, or child by child.
type isolationCase struct {
	Parent, A, B string // pom.xml texts
	Interleave   bool
}

func decodePOM(s string) (maven.Project, error) {
	var p maven.Project
	err := xml.Unmarshal([]byte(s), &p)
	return p, err
}

func effectiveRows(child, parent maven.Project) (string, error) {
	child.MergeParent(parent)
	if err := child.Interpolate(); err != nil {
		return "", err
	}
	var sb strings.Builder
	for _, r := range goRows(child) {
		sb.WriteString(r.String() + "\n")
	}
	return sb.String(), nil
}

func isolationViolation(c isolationCase) (string, error) {
	want := [2]string{}
	for i, child := range []string{c.A, c.B} {
		p, err := decodePOM(c.Parent)
		if err != nil {
			return "", err
		}
		ch, err := decodePOM(child)
		if err != nil {
			return "", err
		}
		w, err := effectiveRows(ch, p)
		if err != nil {
			return "", nil // an interpolation error: nothing to compare
		}
		want[i] = w
	}
	// now with one decoded parent
	p, err := decodePOM(c.Parent)
	if err != nil {
		return "", err
	}
	a, _ := decodePOM(c.A)
	b, _ := decodePOM(c.B)
	var got [2]string
	if c.Interleave {
		a.MergeParent(p)
		b.MergeParent(p)
		for i, ch := range []*maven.Project{&a, &b} {
			if err := ch.Interpolate(); err != nil {
				return "", nil
			}
			var sb strings.Builder
			for _, r := range goRows(*ch) {
				sb.WriteString(r.String() + "\n")
			}
			got[i] = sb.String()
		}
	} else {
		for i, ch := range []maven.Project{a, b} {
			g, err := effectiveRows(ch, p)
			if err != nil {
				return "", nil
			}
			got[i] = g
		}
	}
	for i, name := range []string{"first", "second"} {
		if got[i] != want[i] {
			return fmt.Sprintf("the %s child of a parent decoded once has\n%s; with a parent decoded for it alone it has\n%s", name, got[i], want[i]), nil
		}
	}
	return "", nil
}

func isolationProp(t *rapid.T) {
	o := genOpts{noKeyPH: true}
	parent := pPOM{G: "r", A: "par", V: "1.0", Packaging: "pom", Props: drawProps(t, 5), Deps: drawDepList(t, false, 3, o, "modeldeps"), Mgmt: drawDepList(t, true, 3, o, "modelmgmt")}
	mk := func(name string) pPOM {
		return pPOM{G: "r", A: name, V: "2.0", Parent: &[3]string{"r", "par", "1.0"}, Props: drawProps(t, 4), Deps: drawDepList(t, false, 3, o, "modeldeps"), Mgmt: drawDepList(t, true, 2, o, "modelmgmt")}
	}
	c := isolationCase{Parent: parent.render(), A: mk("a").render(), B: mk("b").render(), Interleave: rapid.Bool().Draw(t, "interleave")}
	rec.SetCase(c)
	obs, err := isolationViolation(c)
	if err != nil {
		t.Fatalf("harness failure: %v", err)
	}
	rec.Eval(1)
	if strings.Contains(c.A, "<properties>") && strings.Contains(c.B, "<properties>") && strings.Contains(c.Parent, "<properties>") {
		b, _ := json.Marshal(c)
		rec.NonTrivial(string(b))
		rec.Class("all-three-define-properties")
	}
	if obs != "" {
		rec.Fail(t, c, obs, "the same effective dependencies as with a parent decoded for that child alone")
	}
}

func TestMergeIsolation(t *testing.T) {
	rec.Check(t, "merge-isolation", ev.N(4000, 300000), isolationProp)
}
