// C08 — a PyPI resolution graph is a consistent pip solution.
package c08

import (
	"context"
	"deps.dev/util/semver"
	"encoding/json"
	"fmt"
	"os"
	"regexp"
	"sort"
	"strings"
	"testing"

	"deps.dev/util/resolve"
	"deps.dev/util/resolve/dep"
	pypiresolve "deps.dev/util/resolve/pypi"
	"deps.dev/util/resolve/schema"
	"deps.dev/util/resolve/verifh/internal/ev"
	"deps.dev/util/resolve/verifh/internal/gen"
	"deps.dev/util/resolve/verifh/internal/known"
	"deps.dev/util/resolve/verifh/internal/oracle"
	"pgregory.net/rapid"
)

var rec = ev.New("C08")
var kf *known.File
var pyNew, pyOld *oracle.Server

func TestMain(m *testing.M) {
	kf, _ = known.Load(ev.KnownFile())
	rec.Rule("generated PyPI universes (2-12 packages, 1-5 versions each incl. pre- and post-releases, specifiers of every operator, markers whose truth in the fixed environment is known by construction incl. extra-dependent ones, EnabledDependencies extras, cycles through the root, conflicts that force backtracking, missing packages; successive versions share requirement lists; a quarter extras-heavy, an eighth with a resolver stress shape overlaid (late extra, late extra with a conflict behind it, diamond conflict, root cycle with a prerelease-naming requirement); at most one requirement per (version, package)) and every root (a sample for large universes); oracle = validity predicates whenever Graph.Error is empty: one node per package, node 0 is the root and its package occurs once, every requirement with a true marker (given the extras requested on the incoming edges) has an edge to the selected version and that version is in SpecifierSet(spec).filter(all versions) as computed by packaging (26.x and 21.3, asserted where they agree), requirements with false markers have no edge, every node reachable. One evaluation = one (universe, root) with an error-free graph. Non-trivial: backtracking (some requirement's best candidate is not the selected version), a false marker, an extra, or a cycle through the root. Distinct = distinct (universe, root). A quarter of the universes carry one of seven resolver stress shapes with randomly assigned roles; every edge must stem from a requirement of its source version (no tolerance for edges left by a replaced pin since the graph construction was repaired).")
	var err error
	if pyNew, err = oracle.Start("py"); err == nil {
		rec.Extra("oracle_py", pyNew.Version)
		if pyOld, err = oracle.Start("pyold"); err == nil {
			rec.Extra("oracle_pyold", pyOld.Version)
		}
	} else {
		rec.Extra("oracle_unavailable_py", true)
	}
	code := m.Run()
	for _, s := range []*oracle.Server{pyNew, pyOld} {
		if s != nil {
			s.Close()
		}
	}
	rec.Flush()
	os.Exit(code)
}

type rootCase struct {
	Universe gen.Universe `json:"universe"`
	Root     [2]string    `json:"root"`
}

var filterCache = map[string][]string{}

// pipFilter returns SpecifierSet(spec).filter(versions); ok=false on reference drift.
func pipFilter(spec string, versions []string) (out []string, ok bool, err error) {
	key := spec + "\x00" + strings.Join(versions, "\x00")
	if v, hit := filterCache[key]; hit {
		return v, v != nil, nil
	}
	vj, _ := json.Marshal(versions)
	a, err := pyNew.AskJSON("filterraw", spec, string(vj))
	if err != nil {
		return nil, false, err
	}
	if pyOld != nil {
		b, err := pyOld.AskJSON("filterraw", spec, string(vj))
		if err != nil {
			return nil, false, err
		}
		if a != b {
			filterCache[key] = nil
			return nil, false, nil
		}
	}
	if strings.HasPrefix(a, "E") {
		filterCache[key] = nil
		return nil, false, nil
	}
	if err := json.Unmarshal([]byte(a), &out); err != nil {
		return nil, false, fmt.Errorf("bad oracle answer %q", a)
	}
	if out == nil {
		out = []string{}
	}
	filterCache[key] = out
	return out, true, nil
}

// pipFilterPre is SpecifierSet(spec).filter(versions, prereleases=True).
func pipFilterPre(spec string, versions []string) ([]string, bool, error) {
	var out []string
	for _, v := range versions {
		a, err := pyNew.AskJSON("containspre", spec, v)
		if err != nil {
			return nil, false, err
		}
		if pyOld != nil {
			b, err := pyOld.AskJSON("containspre", spec, v)
			if err != nil {
				return nil, false, err
			}
			if a != b {
				return nil, false, nil
			}
		}
		if a == "1" {
			out = append(out, v)
		}
	}
	return out, true, nil
}

var markerTruth = func() map[string]string {
	m := map[string]string{}
	for _, pm := range gen.PyMarkers {
		m[pm.Text] = pm.Truth
	}
	return m
}()

type stats struct {
	backtracked, falseMarker, extras, rootCycle bool
	staleEdges                                  int
}

func contains(ss []string, s string) bool {
	for _, x := range ss {
		if x == s {
			return true
		}
	}
	return false
}

func validate(u gen.Universe, root [2]string) (obs, exp string, st stats, status string, err error) {
	sch, e := schema.New(u.Text(), resolve.PyPI)
	if e != nil {
		return "", "", st, "", fmt.Errorf("harness: schema rejects the universe: %v", e)
	}
	client := sch.NewClient()
	versions := map[string][]string{}
	for _, p := range sch.Packages {
		for _, v := range p.Versions {
			versions[p.Name] = append(versions[p.Name], v.Version)
		}
	}
	rvk := resolve.VersionKey{PackageKey: resolve.PackageKey{System: resolve.PyPI, Name: root[0]}, VersionType: resolve.Concrete, Version: root[1]}
	g, rerr := pypiresolve.NewResolver(client).Resolve(context.Background(), rvk)
	if rerr != nil {
		return "", "", st, "resolve-error", nil
	}
	if g.Error != "" {
		return "", "", st, "graph-error", nil
	}
	if len(g.Nodes) == 0 || g.Nodes[0].Version != rvk {
		return fmt.Sprintf("node 0 is not the root %v", rvk), "node 0 is the root version", st, "ok", nil
	}
	// one node per package; the root's package occurs once
	byPkg := map[string]int{}
	for i, n := range g.Nodes {
		if j, dup := byPkg[n.Version.Name]; dup {
			return fmt.Sprintf("package %s occurs as %s (node %d) and %s (node %d)", n.Version.Name, g.Nodes[j].Version.Version, j, n.Version.Version, i), "exactly one version per package (the root is never replaced)", st, "ok", nil
		}
		byPkg[n.Version.Name] = i
	}
	// extras requested on incoming edges; reachability
	extras := map[int]map[string]bool{}
	adj := map[int][]int{}
	type ekey struct {
		from int
		pkg  string
		req  string
	}
	edges := map[ekey]int{}
	for _, e := range g.Edges {
		adj[int(e.From)] = append(adj[int(e.From)], int(e.To))
		edges[ekey{int(e.From), g.Nodes[e.To].Version.Name, e.Requirement}]++
		if ed, ok := e.Type.GetAttr(dep.EnabledDependencies); ok {
			if extras[int(e.To)] == nil {
				extras[int(e.To)] = map[string]bool{}
			}
			for _, x := range strings.Split(ed, ",") {
				extras[int(e.To)][strings.TrimSpace(x)] = true
			}
			st.extras = true
		}
		if e.To == 0 {
			st.rootCycle = true
		}
	}
	reach := map[int]bool{0: true}
	stack := []int{0}
	for len(stack) > 0 {
		n := stack[len(stack)-1]
		stack = stack[:len(stack)-1]
		for _, m := range adj[n] {
			if !reach[m] {
				reach[m] = true
				stack = append(stack, m)
			}
		}
	}
	for i, n := range g.Nodes {
		if !reach[i] {
			return fmt.Sprintf("node %d (%s@%s) is not reachable from the root", i, n.Version.Name, n.Version.Version), "every node reachable from the root", st, "ok", nil
		}
	}
	// conjunction of the specifiers on the edges into each node
	combined := map[int]string{}
	for _, e := range g.Edges {
		if strings.TrimSpace(e.Requirement) == "" {
			continue
		}
		if combined[int(e.To)] != "" {
			combined[int(e.To)] += ","
		}
		combined[int(e.To)] += e.Requirement
	}
	staleEdges := 0
	// requirements of every selected version
	for i, n := range g.Nodes {
		reqs, err := client.Requirements(context.Background(), n.Version)
		if err != nil {
			continue
		}
		for _, r := range reqs {
			truth := "true"
			if env, ok := r.Type.GetAttr(dep.Environment); ok {
				t, known := markerTruth[env]
				if !known {
					return "", "", st, "", fmt.Errorf("harness: marker %q has no truth value by construction", env)
				}
				truth = t
			}
			active := truth == "true"
			if strings.HasPrefix(truth, "extra:") {
				active = extras[i][strings.TrimPrefix(truth, "extra:")]
			}
			k := ekey{i, r.Name, r.Version}
			if !active {
				st.falseMarker = true
				if edges[k] > 0 {
					// (until the repair e91457d edges left by a replaced pin were
					// emitted from the new pin and had to be tolerated here)
					note := ""
					if strings.HasPrefix(truth, "extra:") {
						// who asks for that extra? a version that is no longer in the graph
						// (its pin was replaced) leaves the request behind
						want := strings.TrimPrefix(truth, "extra:")
						inGraph := map[string]bool{}
						for _, gn := range g.Nodes {
							inGraph[gn.Version.Name+"@"+gn.Version.Version] = true
						}
						for _, p := range sch.Packages {
							for _, pv := range p.Versions {
								if inGraph[p.Name+"@"+pv.Version] || note != "" {
									continue
								}
								for _, pr := range pv.Requirements {
									if pr.Name != n.Version.Name {
										continue
									}
									if ed, ok := pr.Type.GetAttr(dep.EnabledDependencies); ok {
										for _, x := range strings.Split(ed, ",") {
											if strings.TrimSpace(x) == want {
												note = fmt.Sprintf(" %s %s@%s, which is not in the graph)", staleExtraNote, p.Name, pv.Version)
											}
										}
									}
								}
							}
						}
					}
					return fmt.Sprintf("%s@%s: requirement %s@%q is guarded by a marker that is false here (%s, extras %v) but has an edge%s", n.Version.Name, n.Version.Version, r.Name, r.Version, r.Type, keys(extras[i]), note), "requirements whose marker is false contribute nothing", st, "ok", nil
				}
				continue
			}
			if edges[k] == 0 {
				return fmt.Sprintf("%s@%s: requirement %s@%q [%s] (marker true, extras %v) has no edge in an error-free graph", n.Version.Name, n.Version.Version, r.Name, r.Version, r.Type, keys(extras[i])), "every requirement with a true marker is represented by an edge", st, "ok", nil
			}
			j, ok := byPkg[r.Name]
			if !ok {
				return fmt.Sprintf("%s@%s: requirement on %s has an edge but the package has no node", n.Version.Name, n.Version.Version, r.Name), "edge to the selected version", st, "ok", nil
			}
			sel := g.Nodes[j].Version.Version
			// pip applies its prerelease rule to the conjunction of all the
			// specifiers placed on the package (resolvelib merges them before
			// filtering candidates): a prerelease named by one requirement may
			// be selected although another requirement, alone, would not admit it.
			// The selected version must satisfy this requirement with
			// prereleases allowed, and the conjunction under pip's default rule.
			one, agree1, err := pipFilterPre(r.Version, versions[r.Name])
			if err != nil {
				return "", "", st, "", err
			}
			if !agree1 {
				return "", "", st, "reference-drift", nil
			}
			if !contains(one, sel) {
				return fmt.Sprintf("%s@%s requires %s%s; selected %s@%s does not satisfy that specifier even with prereleases allowed (packaging: %v)", n.Version.Name, n.Version.Version, r.Name, r.Version, r.Name, sel, one), "the selected version satisfies the specifier", st, "ok", nil
			}
			allowed, agree, err := pipFilter(combined[j], versions[r.Name])
			if err != nil {
				return "", "", st, "", err
			}
			if !agree {
				return "", "", st, "reference-drift", nil
			}
			if !contains(allowed, sel) {
				// The root version is pinned whatever requirements point back at it.
				if j == 0 {
					continue
				}
				return fmt.Sprintf("%s@%s requires %s%s; selected %s@%s is not in packaging's SpecifierSet(%q).filter(%v) = %v (conjunction of all specifiers on %s)", n.Version.Name, n.Version.Version, r.Name, r.Version, r.Name, sel, combined[j], versions[r.Name], allowed, r.Name), "the selected version satisfies the specifiers under pip's prerelease rule", st, "ok", nil
			}
			if len(allowed) > 0 && sel != best(allowed) {
				st.backtracked = true
			}
		}
	}
	// every edge stems from a requirement of its source version
	for _, e := range g.Edges {
		from, to := g.Nodes[e.From].Version, g.Nodes[e.To].Version
		reqs, err := client.Requirements(context.Background(), from)
		if err != nil {
			continue
		}
		explained := false
		for _, r := range reqs {
			if r.Name == to.Name && r.Version == e.Requirement {
				explained = true
			}
		}
		if explained {
			continue
		}
		return fmt.Sprintf("edge %s@%s -[%s]-> %s@%s does not stem from any requirement of %s@%s", from.Name, from.Version, e.Requirement, to.Name, to.Version, from.Name, from.Version), "every edge represents a requirement of its source version", st, "ok", nil
	}
	st.staleEdges = staleEdges
	return "", "", st, "ok", nil
}

// otherVersionRequires reports whether another version of the package places
// the requirement: the shape left behind when a pin is replaced (resolvelib
// 0.7, as vendored by the modelled pip, keeps the requirement information of
// the replaced candidate and links it to the package's final version).
func otherVersionRequires(sch *schema.Schema, from resolve.VersionKey, name, req string) bool {
	p := sch.Package(from.Name)
	if p == nil {
		return false
	}
	for _, v := range p.Versions {
		if v.Version == from.Version {
			continue
		}
		for _, r := range v.Requirements {
			if r.Name == name && r.Version == req {
				return true
			}
		}
	}
	return false
}

// best: the last element of packaging's filter output in version order is what
// pip would try first; used only for the non-triviality rule.
func best(vs []string) string {
	s := append([]string(nil), vs...)
	sort.Strings(s)
	return s[len(s)-1]
}

func keys(m map[string]bool) []string {
	var out []string
	for k := range m {
		out = append(out, k)
	}
	sort.Strings(out)
	return out
}

// Known-finding class PrereleaseOfExclusiveUpperBound: PEP 440 excludes the
// pre-releases of V from "<V"; the library's interval model admits them when
// prerelease matching is on (pinned by TestMatch / TestMatchPrerelease rows
// ">=2.0.0-rc <2.0.0" and "<0.5.0"), so the resolver can select V's
// prerelease for a "<V" requirement. Recognised on the observation text: the
// selected version is a pre-release whose release segment equals the bound of
// a "<" clause of the requirement.
var lessClause = regexp.MustCompile(`<\s*([0-9][0-9.]*)`)
var selectedRE = regexp.MustCompile(`selected ([a-z]+)@([0-9][0-9.]*?)(a|b|rc|\.dev)[0-9]+ `)
var requiresRE = regexp.MustCompile(`requires [a-z]+([^;]*); selected`)
var nodeRE = regexp.MustCompile(`^([a-z]+)@([^:]+): requirement`)
var specifierSetRE = regexp.MustCompile(`SpecifierSet\("([^"]*)"\)`)
var notEqualPre = regexp.MustCompile(`!=\s*[0-9][0-9.]*(a|b|rc|\.dev)[0-9]`)
var preLiteral = regexp.MustCompile(`[0-9](a|b|rc|\.dev)[0-9]`)

// PrereleaseKeptAfterBacktrack: a requirement naming a prerelease (f>=2.0a1)
// on a version that is later backtracked away leaves the prerelease among
// f's candidates, so the final graph selects f@2.0a1 for f>=1.0 although a
// final release matches (pip would not). Recognised by: the selected version
// is a prerelease outside packaging's filter, and some version in the universe
// places a prerelease-naming requirement on that package.
//
// SelfRequirementWithExtras: a version that requires its own package with
// extras (c requires c[x,y]) gets the self edge but the extras are not applied
// to it, so requirements guarded by extra == "x" have no edge.
const staleExtraNote = "(the extra is requested only by"

// StaleExtraAfterRepin: extras are accumulated per package; when the version
// that asked for an extra is replaced and drops out of the graph, the extra
// stays, and the dependencies it enables are kept although nothing in the
// final graph asks for it (in pip the package with extras is a candidate of
// its own and disappears with its requester).
func knownClass(obs string, u gen.Universe) string {
	if strings.Contains(obs, "is guarded by a marker that is false here") && strings.Contains(obs, staleExtraNote) && kf.Open("C08", "StaleExtraAfterRepin") {
		return "StaleExtraAfterRepin"
	}
	if m := nodeRE.FindStringSubmatch(obs); m != nil && strings.Contains(obs, "has no edge") && kf.Open("C08", "SelfRequirementWithExtras") {
		for _, p := range u.Pkgs {
			if p.Name != m[1] {
				continue
			}
			for _, v := range p.Versions {
				if v.Version != m[2] {
					continue
				}
				for _, r := range v.Reqs {
					if r.Name == p.Name && strings.Contains(r.Type, "EnabledDependencies") {
						return "SelfRequirementWithExtras"
					}
				}
			}
		}
	}
	sel := selectedRE.FindStringSubmatch(obs)
	req := requiresRE.FindStringSubmatch(obs)
	if sel == nil || req == nil {
		return ""
	}
	if kf.Open("C08", "PrereleaseOfExclusiveUpperBound") {
		rel := strings.TrimSuffix(sel[2], ".")
		for _, m := range lessClause.FindAllStringSubmatch(req[1], -1) {
			if sameRelease(m[1], rel) {
				return "PrereleaseOfExclusiveUpperBound"
			}
		}
	}
	// NotEqualNamesPrerelease: a requirement "!=V" with a prerelease V standing in
	// the final graph switches prerelease matching on for the package (the
	// constraint's spans have prerelease bounds); for packaging "!=" never does.
	if strings.Contains(obs, "is not in packaging's SpecifierSet") && kf.Open("C08", "NotEqualNamesPrerelease") {
		if m := specifierSetRE.FindStringSubmatch(obs); m != nil && notEqualPre.MatchString(m[1]) {
			return "NotEqualNamesPrerelease"
		}
	}
	if strings.Contains(obs, "is not in packaging's SpecifierSet") && kf.Open("C08", "PrereleaseKeptAfterBacktrack") {
		for _, p := range u.Pkgs {
			for _, v := range p.Versions {
				for _, r := range v.Reqs {
					// The requirement must have been in force once: the version that
					// makes it must be one the resolver can have pinned, i.e. each of
					// its requirements has some version to go to (a candidate whose
					// dependencies cannot be met is tried and dropped without leaving
					// anything behind, in pip as in the library).
					if r.Name == sel[1] && preLiteral.MatchString(r.Req) && pinnable(u, v) {
						return "PrereleaseKeptAfterBacktrack"
					}
				}
			}
		}
	}
	return ""
}

// pinnable: every requirement of the version, taken alone, is met by some
// version of the universe (prereleases included; an over-approximation).
func pinnable(u gen.Universe, v gen.UVer) bool {
	for _, r := range v.Reqs {
		// (a requirement behind a marker may not apply at all: it cannot be
		// what keeps the version from being pinned, as far as this test knows)
		if strings.Contains(r.Type, "Environment") {
			continue
		}
		c, err := semver.PyPI.ParseConstraint(r.Req)
		if err != nil {
			continue
		}
		found := false
		for _, p := range u.Pkgs {
			if p.Name != r.Name {
				continue
			}
			for _, w := range p.Versions {
				if pv, err := semver.PyPI.Parse(w.Version); err == nil && c.MatchVersionPrerelease(pv) {
					found = true
				}
			}
		}
		if !found {
			return false
		}
	}
	return true
}

func sameRelease(a, b string) bool {
	trim := func(s string) string {
		s = strings.TrimSuffix(s, ".")
		for strings.HasSuffix(s, ".0") {
			s = strings.TrimSuffix(s, ".0")
		}
		return s
	}
	return trim(a) == trim(b)
}

func prop(t *rapid.T) {
	u := gen.PyPIUniverse().Draw(t, "universe")
	roots := u.Roots()
	if len(roots) == 0 {
		return
	}
	var idx []int
	if len(roots) <= 6 {
		for i := range roots {
			idx = append(idx, i)
		}
	} else {
		for k := 0; k < 4; k++ {
			idx = append(idx, rapid.IntRange(0, len(roots)-1).Draw(t, "root"))
		}
	}
	for _, i := range idx {
		c := rootCase{u, roots[i]}
		rec.SetCase(c)
		obs, exp, st, status, err := validate(u, roots[i])
		if err != nil {
			t.Fatalf("harness/oracle failure: %v", err)
		}
		if status != "ok" {
			rec.ExcludedDomain(status)
			continue
		}
		rec.Eval(1)
		for name, on := range map[string]bool{"backtracked": st.backtracked, "false-marker": st.falseMarker, "extras": st.extras, "cycle-through-root": st.rootCycle} {
			if on {
				rec.Class(name)
			}
		}
		if st.staleEdges > 0 {
			rec.ClassN("edges-from-a-replaced-pin (resolvelib 0.7 stale information; tolerated)", st.staleEdges)
		}
		if st.backtracked || st.falseMarker || st.extras || st.rootCycle {
			b, _ := json.Marshal(c)
			rec.NonTrivial(string(b))
			if len(b) < 1200 && rec.WantSample() {
				rec.Sample(c)
			}
		}
		if obs != "" {
			if cl := knownClass(obs, u); cl != "" {
				rec.ExcludedKnown(cl)
				continue
			}
			rec.Fail(t, c, obs, exp)
		}
	}
}

func TestCorpus(t *testing.T) {
	rec.SetCheck("corpus")
	if pyNew == nil {
		return
	}
	for _, fd := range kf.For("C08") {
		var c rootCase
		if err := json.Unmarshal(fd.Witness, &c); err != nil {
			t.Fatalf("bad witness %s: %v", fd.ID, err)
		}
		if obs, _, _, _, _ := validate(c.Universe, c.Root); obs != "" {
			rec.Known(fd.ID, fd.Text+" ["+obs+"]")
		}
	}
}

func TestSolutions(t *testing.T) {
	if pyNew == nil {
		t.Skip("packaging unavailable")
	}
	rec.Check(t, "solution", ev.N(1500, 120000), prop)
}

func TestReplay(t *testing.T) {
	path := ev.ReplayFile()
	if path == "" {
		t.Skip("no replay file")
	}
	if pyNew == nil {
		t.Skip("packaging unavailable")
	}
	var c rootCase
	if _, err := ev.ReadReplay(path, &c); err != nil {
		t.Fatal(err)
	}
	obs, exp, _, _, err := validate(c.Universe, c.Root)
	if err != nil {
		t.Fatal(err)
	}
	if obs != "" && knownClass(obs, c.Universe) == "" {
		t.Fatalf("replay fails: %s (expected %s)", obs, exp)
	}
}
