// C19 — dependency types and version attributes are values with a faithful text form.
package c19

import (
	"encoding/json"
	"fmt"
	"sort"
	"strconv"
	"strings"
	"testing"
	"unicode"

	"deps.dev/util/resolve"
	"deps.dev/util/resolve/dep"
	"deps.dev/util/resolve/internal/versiontest"
	"deps.dev/util/resolve/schema"
	"deps.dev/util/resolve/verifh/internal/ev"
	"deps.dev/util/resolve/verifh/internal/known"
	"deps.dev/util/resolve/version"
	"pgregory.net/rapid"
)

var rec = ev.New("C19")
var kf *known.File

func TestMain(m *testing.M) {
	kf, _ = known.Load(ev.KnownFile())
	rec.Rule("rapid state machine over a pool of <= 6 dep.Type and <= 6 version.AttrSet values: Add/SetAttr with every named key and arbitrary values (empty, spaces, quotes, backslashes, unicode), Clone into the pool, mutation of a clone or its original; after every step every pair/triple of the pool is checked against a map model (Equal <=> same flags and key/value pairs; Compare reflexive, antisymmetric, transitive, consistent with Equal; clones unaffected by later operations); text clause: every pool member written in the schema's documented syntax and parsed back through schema.ParseResolve / schema.New equals the original. One evaluation = one step (with all its comparisons) or one text round trip. Non-trivial: a set with >= 1 flag and >= 1 valued attribute that was cloned and then mutated on one side; for text, a value that needs quoting. Distinct = distinct history / distinct set text. After the first reading its result is modified and the same text read again: it must read the same.")
	rec.Assume("values containing the schema's own delimiters (| # and, unquoted, newline/tab) are outside the text domain; counted as excluded_domain")
	ev.Main(m, rec)
}

// ---- models -----------------------------------------------------------------

type mset map[int]string // key -> value; flag keys (negative) map to ""

func (m mset) clone() mset {
	c := mset{}
	for k, v := range m {
		c[k] = v
	}
	return c
}

func (m mset) key() string {
	var ks []int
	for k := range m {
		ks = append(ks, k)
	}
	sort.Ints(ks)
	var sb strings.Builder
	for _, k := range ks {
		fmt.Fprintf(&sb, "%d=%q;", k, m[k])
	}
	return sb.String()
}

var depKeys = []dep.AttrKey{dep.Dev, dep.Opt, dep.Test, dep.XTest, dep.Framework, dep.Scope, dep.MavenClassifier, dep.MavenArtifactType, dep.MavenDependencyOrigin, dep.MavenExclusions, dep.EnabledDependencies, dep.KnownAs, dep.Environment, dep.Selector}
var verKeys = []version.AttrKey{version.Blocked, version.Deleted, version.Error, version.Redirect, version.Features, version.DerivedFrom, version.NativeLibrary, version.Registries, version.SupportedFrameworks, version.DependencyGroups, version.Ident, version.Created, version.Tags}

var values = []string{"", "x", "y", "a b", "peer", "\"q\"", "back\\slash", "end\\", "ünï", "a  b", " lead", "trail ", "{\"default\":[]}", "python_version < \"3.7\" and os_name == 'posix'", "1,2", "a:b", "tab\there", "new\nline", "pi|pe", "ha#sh", "x: y", "$1",
	// values that spell a key name of either vocabulary
	"deleted", "Tags", "error", "Blocked", "ident", "dev", "Opt", "Scope", "test", "KnownAs", "Selector", "redirect"}

// op is one replayable operation.
type op struct {
	Kind  string `json:"kind"`  // "set" | "clone"
	Side  string `json:"side"`  // "dep" | "ver"
	Slot  int    `json:"slot"`  // target slot
	From  int    `json:"from"`  // clone source
	Key   int    `json:"key"`   // attribute key
	Value string `json:"value"` // attribute value
}

type state struct {
	deps  []dep.Type
	dm    []mset
	vers  []version.AttrSet
	vm    []mset
	cdeps map[int]bool // slots that are (or were source of) clones later mutated
}

const slots = 6

func newState() *state {
	return &state{deps: make([]dep.Type, slots), dm: mk(slots), vers: make([]version.AttrSet, slots), vm: mk(slots)}
}

func mk(n int) []mset {
	out := make([]mset, n)
	for i := range out {
		out[i] = mset{}
	}
	return out
}

func (s *state) apply(o op) {
	switch {
	case o.Kind == "set" && o.Side == "dep":
		s.deps[o.Slot].AddAttr(dep.AttrKey(o.Key), o.Value)
		if o.Key < 0 {
			s.dm[o.Slot][o.Key] = ""
		} else {
			s.dm[o.Slot][o.Key] = o.Value
		}
	case o.Kind == "set" && o.Side == "ver":
		s.vers[o.Slot].SetAttr(version.AttrKey(o.Key), o.Value)
		if o.Key < 0 {
			s.vm[o.Slot][o.Key] = ""
		} else {
			s.vm[o.Slot][o.Key] = o.Value
		}
	case o.Kind == "clone" && o.Side == "dep":
		s.deps[o.Slot] = s.deps[o.From].Clone()
		s.dm[o.Slot] = s.dm[o.From].clone()
	case o.Kind == "clone" && o.Side == "ver":
		s.vers[o.Slot] = s.vers[o.From].Clone()
		s.vm[o.Slot] = s.vm[o.From].clone()
	}
}

func sgn(x int) int {
	switch {
	case x < 0:
		return -1
	case x > 0:
		return 1
	}
	return 0
}

// check compares the pool with the model: accessors, Equal, order laws.
func (s *state) check() (string, string) {
	// accessors agree with the model
	for i := range s.deps {
		for _, k := range depKeys {
			v, ok := s.deps[i].GetAttr(k)
			mv, mok := s.dm[i][int(k)]
			if ok != mok || (ok && int(k) > 0 && v != mv) {
				return fmt.Sprintf("dep slot %d: GetAttr(%v) = %q,%v; model %q,%v", i, k, v, ok, mv, mok), "last value set"
			}
		}
		if s.deps[i].IsRegular() != (len(s.dm[i]) == 0) {
			return fmt.Sprintf("dep slot %d: IsRegular=%v; model has %d attributes", i, s.deps[i].IsRegular(), len(s.dm[i])), "regular iff no attribute"
		}
	}
	for i := range s.vers {
		for _, k := range verKeys {
			v, ok := s.vers[i].GetAttr(k)
			mv, mok := s.vm[i][int(k)]
			if ok != mok || (ok && int(k) > 0 && v != mv) {
				return fmt.Sprintf("version slot %d: GetAttr(%v) = %q,%v; model %q,%v", i, k, v, ok, mv, mok), "last value set"
			}
		}
		if s.vers[i].Empty() != (len(s.vm[i]) == 0) {
			return fmt.Sprintf("version slot %d: Empty=%v; model has %d attributes", i, s.vers[i].Empty(), len(s.vm[i])), "empty iff no attribute"
		}
		// ForEachAttr visits exactly the model's attributes
		seen := mset{}
		s.vers[i].ForEachAttr(func(k version.AttrKey, v string) { seen[int(k)] = v })
		if seen.key() != s.vm[i].key() {
			return fmt.Sprintf("version slot %d: ForEachAttr visits %s; model %s", i, seen.key(), s.vm[i].key()), "exactly the attributes set"
		}
	}
	n := slots
	for i := 0; i < n; i++ {
		for j := 0; j < n; j++ {
			eq := s.dm[i].key() == s.dm[j].key()
			if got := s.deps[i].Equal(s.deps[j]); got != eq {
				return fmt.Sprintf("dep.Type %s Equal %s = %v; same flags and key/value pairs: %v", s.deps[i], s.deps[j], got, eq), "Equal iff same content"
			}
			c1, c2 := sgn(s.deps[i].Compare(s.deps[j])), sgn(s.deps[j].Compare(s.deps[i]))
			if c1 != -c2 {
				return fmt.Sprintf("dep.Type Compare(%s,%s)=%d but reversed %d", s.deps[i], s.deps[j], c1, c2), "antisymmetric"
			}
			if (c1 == 0) != eq {
				return fmt.Sprintf("dep.Type Compare(%s,%s)=%d; same content: %v", s.deps[i], s.deps[j], c1, eq), "Compare = 0 iff same content"
			}
			veq := s.vm[i].key() == s.vm[j].key()
			if got := s.vers[i].Equal(s.vers[j]); got != veq {
				return fmt.Sprintf("AttrSet %s Equal %s = %v; same flags and key/value pairs: %v", s.vers[i], s.vers[j], got, veq), "Equal iff same content"
			}
			for k := 0; k < n; k++ {
				if s.deps[i].Compare(s.deps[j]) <= 0 && s.deps[j].Compare(s.deps[k]) <= 0 && s.deps[i].Compare(s.deps[k]) > 0 {
					return fmt.Sprintf("dep.Type %s <= %s <= %s but first > last", s.deps[i], s.deps[j], s.deps[k]), "transitive"
				}
			}
		}
	}
	return "", ""
}

// ---- text round trips ---------------------------------------------------------

func needsQuote(v string) bool {
	if v == "" {
		return true
	}
	for _, c := range v {
		if c <= ' ' || c == '"' || c == '\\' || c == '`' || c > 126 {
			return true
		}
	}
	return false
}

func inTextDomain(v string) bool {
	return !strings.ContainsAny(v, "|#") && !strings.Contains(v, ": ") && !strings.Contains(v, " ERROR: ") && !strings.Contains(v, "  ")
}

var depFlag = map[dep.AttrKey]bool{dep.Dev: true, dep.Opt: true, dep.Test: true, dep.Selector: true}

// depText writes a dep.Type in the deptest syntax: keys and values space
// separated, a value quoted with strconv.Quote when it needs it.
func depText(m mset) (string, bool, bool) {
	var parts []string
	quoted := false
	for _, k := range depKeys {
		v, ok := m[int(k)]
		if !ok {
			continue
		}
		parts = append(parts, k.String())
		if depFlag[k] {
			if v != "" {
				return "", false, false // a flag key carrying a value has no text form
			}
			continue
		}
		if !inTextDomain(v) {
			return "", false, false
		}
		if needsQuote(v) {
			v = strconv.Quote(v)
			quoted = true
		}
		parts = append(parts, v)
	}
	return strings.Join(parts, " "), true, quoted
}

func depRoundTrip(t dep.Type, m mset) (obs string, in, quoted bool) {
	txt, ok, q := depText(m)
	if !ok || txt == "" {
		return "", false, false
	}
	// through the graph schema (": " introduces a node label there, so a text
	// containing it has no form in that syntax)
	if strings.Contains(txt, ": ") {
		return "", false, false
	}
	g, err := schema.ParseResolve("r 1\n\t"+txt+"|d@* 1\n", resolve.NPM)
	if err != nil {
		return fmt.Sprintf("schema.ParseResolve rejects the dependency type text %q: %v", txt, err), true, q
	}
	if len(g.Edges) != 1 || !g.Edges[0].Type.Equal(t) {
		return fmt.Sprintf("dependency type %s written as %q parses back (ParseResolve) as %v", t, txt, g.Edges), true, q
	}
	// A parsed type is the reader's own: changing it must not change what the
	// same text reads as the next time.
	g.Edges[0].Type.AddAttr(dep.KnownAs, "changed-after-parsing")
	g.Edges[0].Type.AddAttr(dep.Scope, "changed-after-parsing")
	g.Edges[0].Type.AddAttr(dep.Dev, "")
	if g2, err := schema.ParseResolve("r 1\n\t"+txt+"|d@* 1\n", resolve.NPM); err != nil || len(g2.Edges) != 1 || !g2.Edges[0].Type.Equal(t) {
		return fmt.Sprintf("dependency type %s written as %q reads differently the second time, after the first result was modified: %v %v", t, txt, g2, err), true, q
	} else if a, ok := g2.Edges[0].Type.GetAttr(dep.KnownAs); ok && a == "changed-after-parsing" && !t.HasAttr(dep.KnownAs) {
		return fmt.Sprintf("dependency type %s written as %q: the second reading carries an attribute set on the first result", t, txt), true, q
	}
	// through the universe schema ('@' separates the package name from the
	// requirement on an import line, so values containing it have no text form there)
	if strings.Contains(txt, "@") {
		return "", true, q
	}
	s, err := schema.New("p\n\t1\n\t\t"+txt+"|d@*\n", resolve.NPM)
	if err != nil {
		return fmt.Sprintf("schema.New rejects the dependency type text %q: %v", txt, err), true, q
	}
	if len(s.Packages) != 1 || len(s.Packages[0].Versions) != 1 || len(s.Packages[0].Versions[0].Requirements) != 1 {
		return fmt.Sprintf("schema.New(%q) did not yield one requirement: %+v", txt, s), true, q
	}
	r := s.Packages[0].Versions[0].Requirements[0]
	if !r.Type.Equal(t) || r.Name != "d" {
		return fmt.Sprintf("dependency type %s written as %q parses back (schema.New) as %s on package %q", t, txt, r.Type, r.Name), true, q
	}
	return "", true, q
}

var verFlag = map[version.AttrKey]bool{version.Blocked: true, version.Deleted: true, version.Error: true}

func verRoundTrip(a version.AttrSet, m mset) (obs string, in, quoted bool) {
	if len(m) == 0 {
		return "", false, false
	}
	var lines []string
	for _, k := range verKeys {
		v, ok := m[int(k)]
		if !ok {
			continue
		}
		if verFlag[k] {
			lines = append(lines, "\t\tATTR: "+k.String())
			continue
		}
		if strings.ContainsAny(v, "#") {
			return "", false, false
		}
		if needsQuote(v) {
			quoted = true
			lines = append(lines, "\t\tATTR: "+k.String()+" "+strconv.Quote(v))
		} else {
			lines = append(lines, "\t\tATTR: "+k.String()+" "+v)
		}
	}
	txt := "p\n\t1\n" + strings.Join(lines, "\n") + "\n"
	s, err := schema.New(txt, resolve.NPM)
	if err != nil {
		return fmt.Sprintf("schema.New rejects %q: %v", txt, err), true, quoted
	}
	if len(s.Packages) != 1 || len(s.Packages[0].Versions) != 1 {
		return fmt.Sprintf("schema.New(%q) did not yield one version", txt), true, quoted
	}
	if got := s.Packages[0].Versions[0].Attr; !got.Equal(a) {
		return fmt.Sprintf("attributes %s written as ATTR lines %q parse back as %s", a, txt, got), true, quoted
	}
	return "", true, quoted
}

// verStringRoundTrip: versiontest.String documents
// "dt.Equal(Must(ParseString(String(dt))))"; observed through schema.New's
// "Attr|Version" line, which calls versiontest.ParseString.
func verStringRoundTrip(a version.AttrSet, m mset) (obs string, in bool) {
	if len(m) == 0 {
		return "", false
	}
	for _, k := range verKeys {
		if v, ok := m[int(k)]; ok && !verFlag[k] {
			// Values are space separated tokens in this form.
			if v == "" || strings.ContainsAny(v, "|#") || strings.IndexFunc(v, unicode.IsSpace) >= 0 {
				return "", false
			}
		}
	}
	txt := versiontest.String(a)
	s, err := schema.New("p\n\t"+txt+"|1\n", resolve.NPM)
	if err != nil || len(s.Packages) != 1 || len(s.Packages[0].Versions) != 1 {
		return fmt.Sprintf("schema.New rejects version line %q: %v", txt+"|1", err), true
	}
	v := s.Packages[0].Versions[0]
	if !v.Attr.Equal(a) || v.Version != "1" {
		return fmt.Sprintf("attributes %s written by versiontest.String as %q parse back as %s (version %q)", a, txt, v.Attr, v.Version), true
	}
	return "", true
}

// ---- the state machine ---------------------------------------------------------

type histCase struct {
	Ops []op `json:"ops"`
}

func run(ops []op) (step int, obs, exp string) {
	s := newState()
	for i, o := range ops {
		s.apply(o)
		if obs, exp := s.check(); obs != "" {
			return i, obs, exp
		}
	}
	for i := 0; i < slots; i++ {
		if obs, in, _ := depRoundTrip(s.deps[i], s.dm[i]); in && obs != "" {
			return len(ops), obs, "equal set after the text round trip"
		}
		if obs, in, _ := verRoundTrip(s.vers[i], s.vm[i]); in && obs != "" {
			return len(ops), obs, "equal set after the text round trip"
		}
		if obs, in := verStringRoundTrip(s.vers[i], s.vm[i]); in && obs != "" {
			return len(ops), obs, "equal set after the text round trip"
		}
	}
	return -1, "", ""
}

func machine(t *rapid.T) {
	s := newState()
	var h histCase
	clonedThenMutated := false
	clonePairs := map[[3]int]bool{} // side, a, b
	t.Repeat(map[string]func(*rapid.T){
		"set": func(t *rapid.T) {
			o := op{Kind: "set", Slot: rapid.IntRange(0, slots-1).Draw(t, "slot"), Value: rapid.SampledFrom(values).Draw(t, "value")}
			if rapid.Bool().Draw(t, "dep") {
				o.Side = "dep"
				o.Key = int(rapid.SampledFrom(depKeys).Draw(t, "key"))
			} else {
				o.Side = "ver"
				o.Key = int(rapid.SampledFrom(verKeys).Draw(t, "key"))
			}
			if rapid.IntRange(0, 5).Draw(t, "rndval") == 0 {
				o.Value = rapid.String().Draw(t, "rv")
			}
			side := 0
			if o.Side == "ver" {
				side = 1
			}
			for p := range clonePairs {
				if p[0] == side && (p[1] == o.Slot || p[2] == o.Slot) {
					clonedThenMutated = true
				}
			}
			h.Ops = append(h.Ops, o)
			rec.SetCase(h)
			s.apply(o)
		},
		"clone": func(t *rapid.T) {
			o := op{Kind: "clone", Slot: rapid.IntRange(0, slots-1).Draw(t, "slot"), From: rapid.IntRange(0, slots-1).Draw(t, "from")}
			o.Side = rapid.SampledFrom([]string{"dep", "ver"}).Draw(t, "side")
			side := 0
			if o.Side == "ver" {
				side = 1
			}
			if o.Slot != o.From {
				clonePairs[[3]int{side, o.From, o.Slot}] = true
			}
			h.Ops = append(h.Ops, o)
			rec.SetCase(h)
			s.apply(o)
		},
		"": func(t *rapid.T) {
			rec.Eval(1)
			if obs, exp := s.check(); obs != "" {
				rec.Fail(t, h, obs, exp)
			}
		},
	})
	// text clause on the final pool
	for i := 0; i < slots; i++ {
		if obs, in, q := depRoundTrip(s.deps[i], s.dm[i]); in {
			rec.Eval(1)
			if q {
				rec.Class("dep-text-quoted")
				rec.NonTrivial("deptext|" + s.dm[i].key())
			}
			if obs != "" {
				if cl := knownClass(obs); cl != "" {
					rec.ExcludedKnown(cl)
				} else {
					rec.Fail(t, h, obs, "equal set after the text round trip")
				}
			}
		} else if len(s.dm[i]) > 0 {
			rec.ExcludedDomain("dep-value-has-schema-delimiter")
		}
		if obs, in, q := verRoundTrip(s.vers[i], s.vm[i]); in {
			rec.Eval(1)
			if q {
				rec.Class("ver-text-quoted")
				rec.NonTrivial("vertext|" + s.vm[i].key())
			}
			if obs != "" {
				if cl := knownClass(obs); cl != "" {
					rec.ExcludedKnown(cl)
				} else {
					rec.Fail(t, h, obs, "equal set after the text round trip")
				}
			}
		} else if len(s.vm[i]) > 0 {
			rec.ExcludedDomain("ver-value-has-schema-delimiter")
		}
		if obs, in := verStringRoundTrip(s.vers[i], s.vm[i]); in {
			rec.Eval(1)
			if obs != "" {
				rec.Fail(t, h, obs, "equal set after the text round trip")
			}
		}
	}
	if clonedThenMutated {
		mixed := false
		for i := 0; i < slots; i++ {
			flags, valued := 0, 0
			for k := range s.dm[i] {
				if k < 0 {
					flags++
				} else {
					valued++
				}
			}
			if flags > 0 && valued > 0 {
				mixed = true
			}
		}
		if mixed {
			b, _ := json.Marshal(h)
			rec.NonTrivial(string(b))
			rec.Class("cloned-then-mutated")
			if len(h.Ops) <= 12 && rec.WantSample() {
				rec.Sample(h)
			}
		}
	}
}

func knownClass(obs string) string { return "" }

func TestCorpus(t *testing.T) {
	rec.SetCheck("corpus")
	for _, fd := range kf.For("C19") {
		var h histCase
		if err := json.Unmarshal(fd.Witness, &h); err != nil {
			t.Fatalf("bad witness %s: %v", fd.ID, err)
		}
		if step, obs, _ := run(h.Ops); step >= 0 {
			rec.Known(fd.ID, fd.Text+" ["+obs+"]")
		}
	}
}

func TestMachine(t *testing.T) {
	rec.Check(t, "history", ev.N(4000, 400000), machine)
}

func TestReplay(t *testing.T) {
	path := ev.ReplayFile()
	if path == "" {
		t.Skip("no replay file")
	}
	var h histCase
	if _, err := ev.ReadReplay(path, &h); err != nil {
		t.Fatal(err)
	}
	if step, obs, exp := run(h.Ops); step >= 0 && knownClass(obs) == "" {
		t.Fatalf("replay fails at step %d: %s (expected %s)", step, obs, exp)
	}
}
