// C11 — the textual form of a constraint set parses back to the same set.
package c11

import (
	"encoding/json"
	"fmt"
	"regexp"
	"strings"
	"testing"

	"deps.dev/util/resolve/verifh/internal/ev"
	"deps.dev/util/resolve/verifh/internal/gen"
	"deps.dev/util/resolve/verifh/internal/known"
	"deps.dev/util/semver"
	"pgregory.net/rapid"
)

var rec = ev.New("C11")
var kf *known.File

var systems = []semver.System{semver.DefaultSystem, semver.NPM, semver.Cargo, semver.Go, semver.NuGet}

func TestMain(m *testing.M) {
	kf, _ = known.Load(ev.KnownFile())
	rec.Rule("grammar-generated constraints per system (Default, NPM, Cargo, Go, NuGet) and a candidate pool derived from the constraint's bounds plus random versions; oracle = round trip: t = Set().String(), ParseSetConstraint(t) succeeds, prints t again, and matches exactly the same pool versions under MatchVersionPrerelease. One evaluation = one (constraint, version). Non-trivial: t has a vector span with an infinity bound, an open end or a prerelease bound, and the version is a bound or a neighbour of a bound. Distinct = distinct (system, constraint, version).")
	ev.Main(m, rec)
}

type rtCase struct {
	System     string `json:"system"`
	Constraint string `json:"constraint"`
	V          string `json:"v,omitempty"`
}

func sysByName(name string) semver.System {
	for _, s := range gen.Systems {
		if s.String() == name {
			return s
		}
	}
	return semver.DefaultSystem
}

func styleOf(sys semver.System) string {
	if sys == semver.Go {
		return "go"
	}
	return "semver"
}

type failure struct{ law, v, observed, expected string }

// roundTrip evaluates the clauses for one constraint over the pool.
func roundTrip(sys semver.System, cs string, pool []string, onEval func(v, text string)) (fails []failure, in bool) {
	c, err := sys.ParseConstraint(cs)
	if err != nil {
		return nil, false
	}
	t := c.Set().String()
	c2, err := sys.ParseSetConstraint(t)
	if err != nil {
		return []failure{{"set-text-parses", "", fmt.Sprintf("Set().String() of %q is %s, which ParseSetConstraint rejects: %v", cs, t, err), "parses"}}, true
	}
	if t2 := c2.Set().String(); t2 != t {
		fails = append(fails, failure{"set-text-fixpoint", "", fmt.Sprintf("%q prints %s; parsed back it prints %s", cs, t, t2), "identical"})
	}
	for _, vs := range pool {
		v, err := sys.Parse(vs)
		if err != nil || v.IsWildcard() {
			continue
		}
		if onEval != nil {
			onEval(vs, t)
		}
		if a, b := c.MatchVersionPrerelease(v), c2.MatchVersionPrerelease(v); a != b {
			fails = append(fails, failure{"same-matches", vs, fmt.Sprintf("%q (set %s) matches %s inclusively: %v; the set parsed back from its text: %v", cs, t, vs, a, b), "same"})
		}
	}
	return fails, true
}

// Known-finding class InfinityMinusOneBound: a component equal to 2^63-2 (the
// largest value Parse accepts) under ">" is stepped to the internal infinity,
// which then appears as a *lower* bound in the set text ("{[1.∞.∞:∞.∞.∞]}");
// ParseSetConstraint accepts ∞ only in upper bounds.
var nugetFloat4 = regexp.MustCompile(`^[0-9]+\.[0-9]+\.[0-9]+\.\*+$`)

func knownClass(sys semver.System, f failure, cs string) string {
	if f.law == "set-text-parses" && strings.Contains(cs, "9223372036854775806") && kf.Open("C11", "InfinityMinusOneBound") {
		return "InfinityMinusOneBound"
	}
	// NuGetFourComponentFloating: "1.2.3.*" prints a lower bound with a zero
	// fourth component ("[1.2.3.0:...)"), which the version parser drops
	// again, so the text is not a fix-point.
	if sys == semver.NuGet && f.law == "set-text-fixpoint" && nugetFloat4.MatchString(strings.TrimSpace(cs)) && kf.Open("C11", "NuGetFourComponentFloating") {
		return "NuGetFourComponentFloating"
	}
	return ""
}

func interesting(t string) bool {
	return strings.Contains(t, "∞") || strings.Contains(t, "(") || strings.Contains(t, ")") || strings.Contains(t, "-")
}

func prop(sys semver.System) func(*rapid.T) {
	g := gen.Constraint(sys)
	var vg *rapid.Generator[string]
	if sys == semver.NuGet {
		vg = gen.NuGet()
	} else {
		vg = gen.SemverLike(sys, gen.SemverOpts{})
	}
	return func(t *rapid.T) {
		cs := g.Draw(t, "c")
		pool := gen.BoundaryVersions(styleOf(sys), cs)
		boundary := map[string]bool{}
		for _, v := range pool {
			boundary[v] = true
		}
		pool = append(pool, "0.0.0", "0.0.0-0", "0.0.1-0")
		if sys == semver.Go {
			pool = append(pool, "v0.0.0", "v0.0.0-0")
		}
		n := rapid.IntRange(0, 4).Draw(t, "nrand")
		for i := 0; i < n; i++ {
			pool = append(pool, vg.Draw(t, "rv"))
		}
		c := rtCase{System: sys.String(), Constraint: cs}
		rec.SetCase(c)
		sampled := false
		fails, in := roundTrip(sys, cs, pool, func(v, text string) {
			rec.Eval(1)
			if boundary[v] && interesting(text) {
				rec.NonTrivial(sys.String() + "|" + cs + "|" + v)
				if !sampled && rec.WantSample() {
					sampled = true
					rec.Sample(map[string]string{"system": sys.String(), "constraint": cs, "set": text, "v": v})
				}
			}
		})
		if !in {
			rec.ExcludedDomain("constraint-rejected")
			return
		}
		for _, f := range fails {
			if cl := knownClass(sys, f, cs); cl != "" {
				rec.ExcludedKnown(cl)
				continue
			}
			rec.Fail(t, map[string]string{"system": c.System, "constraint": cs, "v": f.v, "law": f.law}, f.observed, f.expected)
		}
	}
}

func TestCorpus(t *testing.T) {
	rec.SetCheck("corpus")
	for _, fd := range kf.For("C11") {
		var c rtCase
		if err := json.Unmarshal(fd.Witness, &c); err != nil {
			t.Fatalf("bad witness %s: %v", fd.ID, err)
		}
		fails, _ := roundTrip(sysByName(c.System), c.Constraint, []string{c.V}, nil)
		if len(fails) > 0 {
			rec.Known(fd.ID, fd.Text+" ["+fails[0].law+": "+fails[0].observed+"]")
		}
	}
}

func TestRoundTrip(t *testing.T) {
	for _, sys := range systems {
		rec.Check(t, "roundtrip/"+sys.String(), ev.N(25000, 2000000), prop(sys))
	}
}

func TestReplay(t *testing.T) {
	path := ev.ReplayFile()
	if path == "" {
		t.Skip("no replay file")
	}
	var c rtCase
	if _, err := ev.ReadReplay(path, &c); err != nil {
		t.Fatal(err)
	}
	sys := sysByName(c.System)
	pool := gen.BoundaryVersions(styleOf(sys), c.Constraint)
	if c.V != "" {
		pool = []string{c.V}
	}
	fails, _ := roundTrip(sys, c.Constraint, pool, nil)
	for _, f := range fails {
		if knownClass(sys, f, c.Constraint) == "" {
			t.Fatalf("replay fails: %s v=%s: %s", f.law, f.v, f.observed)
		}
	}
}

func FuzzSetRoundTrip(f *testing.F) {
	f.Add(uint8(1), ">=1.2.0 <2.0.0 || ^3", "2.0.0")
	f.Add(uint8(0), "~>1.0.0-alpha.0, <1.5", "1.0.0-alpha.1")
	f.Add(uint8(2), ">=1.0.0-alpha, <1.0.0", "1.0.0-rc.1")
	f.Add(uint8(3), "v1.2.3-pre", "v1.9.0")
	f.Add(uint8(4), "[1.0,2.0)", "1.5.0-beta")
	f.Add(uint8(4), "1.*", "1.5.0")
	f.Fuzz(func(t *testing.T, sysb uint8, cs, v string) {
		sys := systems[int(sysb)%len(systems)]
		if len(cs) > 200 {
			return
		}
		pool := append(gen.BoundaryVersions(styleOf(sys), cs), v)
		fails, _ := roundTrip(sys, cs, pool, nil)
		for _, fl := range fails {
			if knownClass(sys, fl, cs) == "" {
				t.Fatalf("%s %q v=%q: %s: %s", sys, cs, fl.v, fl.law, fl.observed)
			}
		}
	})
}
