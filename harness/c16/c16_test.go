// C16 — Python requirement strings and environment markers follow PEP 508.
package c16

import (
	"context"
	"encoding/json"
	"fmt"
	"os"
	"regexp"
	"sort"
	"strings"
	"testing"

	"deps.dev/util/pypi"
	"deps.dev/util/resolve"
	pypiresolve "deps.dev/util/resolve/pypi"
	"deps.dev/util/resolve/schema"
	"deps.dev/util/resolve/verifh/internal/ev"
	"deps.dev/util/resolve/verifh/internal/gen"
	"deps.dev/util/resolve/verifh/internal/known"
	"deps.dev/util/resolve/verifh/internal/oracle"
	"pgregory.net/rapid"
)

var rec = ev.New("C16")
var kf *known.File
var pyNew, pyOld *oracle.Server

func TestMain(m *testing.M) {
	kf, _ = known.Load(ev.KnownFile())
	rec.Rule("(a) requirement strings generated from the PEP 508 grammar (names with mixed case and -_. runs, extras lists, bare and parenthesised specifier lists, markers, PEP 508 whitespace everywhere; no URL forms): pypi.ParseDependency must yield packaging's canonical name, extras (as a set), specifier (as a set of operator/version pairs) and marker (compared after normalising both through str(Marker())); CanonPackageName idempotent and equal to canonicalize_name; (b) marker expressions (and/or/parentheses to depth 3 over all variables and extra, every operator incl. in / not in / ~= / ===, literals at the version/string boundary): in a universe root -> P[extras E] -> Q guarded by m, Q is in the resolved graph iff packaging evaluates m to true in the library's fixed environment for some requested extra. Both checks assert only where packaging 26.x and pip's vendored 21.3 agree. Non-trivial: requirement with >= 2 of {extras, specifier, marker}; marker with >= 2 atoms or an atom at the version/string boundary. Distinct = distinct input text. A quarter of the markers are evaluated after a variant of themselves (other letter case or spacing inside a literal; atoms comparing a variable with its actual value) in the same resolution.")
	var err error
	if pyNew, err = oracle.Start("py"); err == nil {
		rec.Extra("oracle_py", pyNew.Version)
		if pyOld, err = oracle.Start("pyold"); err == nil {
			rec.Extra("oracle_pyold", pyOld.Version)
		}
	} else {
		rec.Extra("oracle_unavailable_py", true)
	}
	code := m.Run()
	if pyNew != nil {
		pyNew.Close()
	}
	if pyOld != nil {
		pyOld.Close()
	}
	rec.Flush()
	os.Exit(code)
}

// ask queries both references and reports agreement.
func ask(fields ...string) (ans string, status string, err error) {
	a, err := pyNew.AskJSON(fields...)
	if err != nil {
		return "", "", err
	}
	if pyOld != nil {
		b, err := pyOld.AskJSON(fields...)
		if err != nil {
			return "", "", err
		}
		if a != b {
			return "", "drift", nil
		}
	}
	if strings.HasPrefix(a, "E") || a == "URL" {
		return "", "reject", nil
	}
	return a, "ok", nil
}

type refReq struct {
	Name   string     `json:"name"`
	Canon  string     `json:"canon"`
	Extras []string   `json:"extras"`
	Spec   [][]string `json:"spec"`
	Marker string     `json:"marker"`
}

type reqCase struct {
	Requirement string `json:"requirement"`
}

var specRE = regexp.MustCompile(`^\s*(===|==|~=|!=|<=|>=|<|>)\s*(.*?)\s*$`)

func splitSpec(s string) ([][]string, bool) {
	var out [][]string
	s = strings.TrimSpace(s)
	if s == "" {
		return nil, true
	}
	for _, cl := range strings.Split(s, ",") {
		m := specRE.FindStringSubmatch(cl)
		if m == nil {
			return nil, false
		}
		out = append(out, []string{m[1], strings.Join(strings.Fields(m[2]), "")})
	}
	sort.Slice(out, func(i, j int) bool {
		if out[i][0] != out[j][0] {
			return out[i][0] < out[j][0]
		}
		return out[i][1] < out[j][1]
	})
	return out, true
}

func setOf(ss []string) string {
	m := map[string]bool{}
	for _, s := range ss {
		m[s] = true
	}
	var out []string
	for s := range m {
		out = append(out, s)
	}
	sort.Strings(out)
	return strings.Join(out, ",")
}

func checkRequirement(s string) (obs, exp, status string, parts int, err error) {
	if strings.ContainsAny(s, "\n\r") {
		return "", "", "unclean", 0, nil
	}
	ans, st, err := ask("req", s)
	if err != nil || st != "ok" {
		return "", "", "reference-" + st, 0, err
	}
	var r refReq
	if err := json.Unmarshal([]byte(ans), &r); err != nil {
		return "", "", "", 0, fmt.Errorf("bad oracle answer %q", ans)
	}
	if len(r.Extras) > 0 {
		parts++
	}
	if len(r.Spec) > 0 {
		parts++
	}
	if r.Marker != "" {
		parts++
	}
	d, perr := pypi.ParseDependency(s)
	if perr != nil {
		return fmt.Sprintf("ParseDependency(%q) fails: %v; packaging accepts it", s, perr), "accepted", "ok", parts, nil
	}
	if d.Name != r.Canon {
		return fmt.Sprintf("ParseDependency(%q).Name = %q; packaging canonicalize_name(%q) = %q", s, d.Name, r.Name, r.Canon), r.Canon, "ok", parts, nil
	}
	var gotExtras []string
	for _, e := range strings.Split(d.Extras, ",") {
		if e = strings.Trim(e, " \t"); e != "" {
			gotExtras = append(gotExtras, e)
		}
	}
	if g, w := setOf(gotExtras), setOf(r.Extras); g != w {
		return fmt.Sprintf("ParseDependency(%q).Extras = %q (set %s); packaging extras %s", s, d.Extras, g, w), w, "ok", parts, nil
	}
	gs, ok := splitSpec(d.Constraint)
	if !ok {
		return fmt.Sprintf("ParseDependency(%q).Constraint = %q is not a comma list of specifiers", s, d.Constraint), fmt.Sprint(r.Spec), "ok", parts, nil
	}
	var ws [][]string
	for _, p := range r.Spec {
		ws = append(ws, []string{p[0], strings.Join(strings.Fields(p[1]), "")})
	}
	sort.Slice(ws, func(i, j int) bool {
		if ws[i][0] != ws[j][0] {
			return ws[i][0] < ws[j][0]
		}
		return ws[i][1] < ws[j][1]
	})
	// packaging de-duplicates identical clauses
	dedup := func(x [][]string) string {
		seen := map[string]bool{}
		var out []string
		for _, p := range x {
			k := p[0] + p[1]
			if !seen[k] {
				seen[k] = true
				out = append(out, k)
			}
		}
		return strings.Join(out, ",")
	}
	if g, w := dedup(gs), dedup(ws); g != w {
		return fmt.Sprintf("ParseDependency(%q).Constraint = %q (clauses %s); packaging specifier %s", s, d.Constraint, g, w), w, "ok", parts, nil
	}
	if (d.Environment != "") != (r.Marker != "") {
		return fmt.Sprintf("ParseDependency(%q).Environment = %q; packaging marker %q", s, d.Environment, r.Marker), r.Marker, "ok", parts, nil
	}
	if d.Environment != "" {
		norm, st, err := ask("markerstr", d.Environment)
		if err != nil {
			return "", "", "", parts, err
		}
		if st != "ok" {
			return fmt.Sprintf("ParseDependency(%q).Environment = %q, which packaging does not read as a marker; expected %q", s, d.Environment, r.Marker), r.Marker, "ok", parts, nil
		}
		if norm != r.Marker {
			return fmt.Sprintf("ParseDependency(%q).Environment = %q (normalised %q); packaging marker %q", s, d.Environment, norm, r.Marker), r.Marker, "ok", parts, nil
		}
	}
	return "", "", "ok", parts, nil
}

func reqProp(t *rapid.T) {
	s := gen.PEP508Requirement().Draw(t, "req")
	c := reqCase{s}
	rec.SetCase(c)
	obs, exp, status, parts, err := checkRequirement(s)
	if err != nil {
		t.Fatalf("oracle failure: %v", err)
	}
	if status != "ok" {
		rec.ExcludedDomain(status)
		return
	}
	rec.Eval(1)
	if parts >= 2 {
		rec.NonTrivial(s)
		rec.Class("nontrivial")
		if rec.WantSample() {
			rec.Sample(c)
		}
	}
	if obs != "" {
		if cl := knownReqClass(s, obs); cl != "" {
			rec.ExcludedKnown(cl)
			return
		}
		rec.Fail(t, c, obs, exp)
	}
}

func knownReqClass(s, obs string) string { return "" }

var validName = regexp.MustCompile(`(?i)^([A-Z0-9]|[A-Z0-9][A-Z0-9._-]*[A-Z0-9])$`)

func checkName(name string) (string, string, error) {
	got := pypi.CanonPackageName(name)
	if again := pypi.CanonPackageName(got); again != got {
		return fmt.Sprintf("CanonPackageName(%q) = %q but applying it again gives %q", name, got, again), "", nil
	}
	if !validName.MatchString(name) {
		return "", "invalid-name", nil
	}
	want, st, err := ask("canon", name)
	if err != nil || st != "ok" {
		return "", "reference-" + st, err
	}
	if got != want {
		return fmt.Sprintf("CanonPackageName(%q) = %q; canonicalize_name = %q", name, got, want), "", nil
	}
	return "", "", nil
}

func nameProp(t *rapid.T) {
	var name string
	if rapid.Bool().Draw(t, "structured") {
		n := rapid.IntRange(1, 4).Draw(t, "parts")
		for i := 0; i < n; i++ {
			if i > 0 {
				name += rapid.StringMatching(`[-_.]{1,3}`).Draw(t, "sep")
			}
			name += rapid.StringMatching(`[A-Za-z0-9]{1,4}`).Draw(t, "part")
		}
	} else {
		name = rapid.StringMatching(`[A-Za-z0-9._-]{1,10}`).Draw(t, "raw")
	}
	c := map[string]string{"name": name}
	rec.SetCase(c)
	obs, status, err := checkName(name)
	if err != nil {
		t.Fatalf("oracle failure: %v", err)
	}
	rec.Eval(1)
	if status != "" {
		rec.Class(status)
	} else if pypi.CanonPackageName(name) != name {
		rec.NonTrivial("name|" + name)
		if rec.WantSample() {
			rec.Sample(c)
		}
	}
	if obs != "" {
		rec.Fail(t, c, obs, "idempotent and equal to packaging's canonicalize_name")
	}
}

// ---- markers through resolution -------------------------------------------------------

type markerCase struct {
	Marker string   `json:"marker"`
	Extras []string `json:"extras"`
	// Before: markers of other dependencies the same resolution evaluates first
	// (variants of Marker in the case or spacing of a literal); the answer for
	// Marker must not depend on them.
	Before []string `json:"before,omitempty"`
}

// libraryEnv reads the library's fixed target environment from its generated
// source file (the package is internal to the resolver and cannot be imported).
var libraryEnvCache map[string]string

func libraryEnv() map[string]string {
	if libraryEnvCache != nil {
		return libraryEnvCache
	}
	root := os.Getenv("VERIF_REPO")
	if root == "" {
		root = "/repo"
	}
	b, err := os.ReadFile(root + "/util/resolve/pypi/internal/env.gen.go")
	if err != nil {
		panic(err)
	}
	src := string(b)
	i := strings.Index(src, "var Markers = map[string]string{")
	if i < 0 {
		panic("Markers table not found in env.gen.go")
	}
	src = src[i:]
	src = src[:strings.Index(src, "\n}")]
	env := map[string]string{}
	for _, m := range regexp.MustCompile(`(?m)^\s*("(?:[^"\\]|\\.)*"):\s*("(?:[^"\\]|\\.)*"),`).FindAllStringSubmatch(src, -1) {
		var k, v string
		json.Unmarshal([]byte(m[1]), &k)
		json.Unmarshal([]byte(m[2]), &v)
		env[k] = v
	}
	if len(env) < 11 {
		panic(fmt.Sprintf("only %d marker variables parsed from env.gen.go", len(env)))
	}
	libraryEnvCache = env
	return env
}

func envJSON(extra string) string {
	env := map[string]string{}
	for k, v := range libraryEnv() {
		env[k] = v
	}
	env["extra"] = extra
	b, _ := json.Marshal(env)
	return string(b)
}

// followed reports whether the resolver follows the dependency guarded by the marker.
func followed(mk string, extras []string, before ...string) (bool, error) {
	var sb strings.Builder
	sb.WriteString("root\n\t1.0.0\n\t\t")
	if len(extras) > 0 {
		fmt.Fprintf(&sb, "EnabledDependencies %q|", strings.Join(extras, ","))
	}
	sb.WriteString("p@\np\n\t1.0.0\n")
	for i, b := range before {
		fmt.Fprintf(&sb, "\t\tEnvironment %q|b%d@\n", b, i)
	}
	fmt.Fprintf(&sb, "\t\tEnvironment %q|q@\nq\n\t1.0.0\n", mk)
	for i := range before {
		fmt.Fprintf(&sb, "b%d\n\t1.0.0\n", i)
	}
	s, err := schema.New(sb.String(), resolve.PyPI)
	if err != nil {
		return false, fmt.Errorf("harness: schema rejects the universe: %v", err)
	}
	// Sanity: the universe carries the marker verbatim.
	pk := s.Package("p")
	if pk == nil || len(pk.Versions) != 1 || len(pk.Versions[0].Requirements) != 1+len(before) {
		return false, fmt.Errorf("harness: universe malformed")
	}
	r := pypiresolve.NewResolver(s.NewClient())
	g, err := r.Resolve(context.Background(), resolve.VersionKey{PackageKey: resolve.PackageKey{System: resolve.PyPI, Name: "root"}, VersionType: resolve.Concrete, Version: "1.0.0"})
	if err != nil || g == nil || g.Error != "" {
		return false, nil // an unparsable marker: the dependency was not followed
	}
	for _, n := range g.Nodes {
		if n.Version.Name == "q" {
			return true, nil
		}
	}
	return false, nil
}

func refMarker(mk string, extras []string) (want bool, status string, err error) {
	es := extras
	if len(es) == 0 {
		es = []string{""}
	}
	for _, e := range es {
		a, st, err := ask("marker", mk, envJSON(e))
		if err != nil || st != "ok" {
			return false, "reference-" + st, err
		}
		if a == "1" {
			want = true
		}
	}
	return want, "ok", nil
}

func checkMarker(mk string, extras []string, before ...string) (obs, exp, status string, err error) {
	if strings.ContainsAny(mk+strings.Join(before, ""), "\n\r|#@") {
		return "", "", "schema-delimiter", nil
	}
	for _, b := range before {
		// an earlier marker the reference rejects would end the resolution
		if _, st, err := refMarker(b, extras); err != nil || st != "ok" {
			return "", "", "earlier-marker-" + st, err
		}
	}
	want, status, err := refMarker(mk, extras)
	if err != nil || status != "ok" {
		return "", "", status, err
	}
	got, err := followed(mk, extras, before...)
	if err != nil {
		return "", "", "", err
	}
	if got != want {
		after := ""
		if len(before) > 0 {
			after = fmt.Sprintf(" (evaluated after %q in the same resolution)", before)
		}
		return fmt.Sprintf("marker %q with extras %v%s: dependency followed=%v; packaging evaluates it to %v", mk, extras, after, got, want), fmt.Sprint(want), "ok", nil
	}
	return "", "", "ok", nil
}

var quotedLiteral = regexp.MustCompile(`"[^"]*"|'[^']*'`)

// literalVariant rewrites one string literal of the marker: other letter case,
// or other spacing inside the literal. The result is a different marker that a
// case- or space-insensitive reading would confuse with the original.
func literalVariant(t *rapid.T, mk string) string {
	locs := quotedLiteral.FindAllStringIndex(mk, -1)
	if len(locs) == 0 {
		return mk
	}
	l := locs[rapid.IntRange(0, len(locs)-1).Draw(t, "whichlit")]
	lit := mk[l[0]+1 : l[1]-1]
	var v string
	switch rapid.IntRange(0, 3).Draw(t, "variant") {
	case 0:
		v = strings.ToUpper(lit)
	case 1:
		v = strings.ToLower(lit)
	case 2:
		if lit != "" {
			v = strings.ToUpper(lit[:1]) + lit[1:]
		}
	default:
		v = strings.ReplaceAll(lit, " ", "  ")
		if v == lit {
			v = lit + " "
		}
	}
	return mk[:l[0]+1] + v + mk[l[1]-1:]
}

var prereleaseLiteral = regexp.MustCompile(`["'][0-9.]+(a|b|rc|\.dev)[0-9]*["']`)

var boundaryLits = regexp.MustCompile(`["'](3\.9|3\.9\.6|3\.10|3|5\.0|6\.9\.10|linux2?|x86_64|cpython|)["']`)

func markerProp(t *rapid.T) {
	extras := rapid.SampledFrom([][]string{nil, nil, {"sec"}, {"test"}, {"sec", "test"}, {"other"}}).Draw(t, "extras")
	mk := gen.Marker(gen.MarkerOpts{Extras: []string{"sec", "test"}, MaxDepth: 3, VarLitOnly: true}).Draw(t, "marker")
	var before []string
	if rapid.IntRange(0, 3).Draw(t, "twin") == 0 {
		if rapid.Bool().Draw(t, "aligned") {
			// an atom that compares a variable with its actual value, so that
			// the case of the literal decides the answer
			env := libraryEnv()
			v := rapid.SampledFrom([]string{"platform_system", "sys_platform", "os_name", "platform_machine", "platform_python_implementation", "implementation_name"}).Draw(t, "alignedvar")
			atom := v + " " + rapid.SampledFrom([]string{"==", "!=", "in", "not in", "=="}).Draw(t, "alignedop") + " \"" + env[v] + "\""
			switch rapid.IntRange(0, 3).Draw(t, "alignedform") {
			case 0:
				mk = atom + " and (" + mk + ")"
			case 1:
				mk = "(" + mk + ") or " + atom
			default:
				mk = atom
			}
		}
		if tw := literalVariant(t, mk); tw != mk {
			before = []string{tw}
			if rapid.Bool().Draw(t, "twinfirst") {
				mk, before[0] = tw, mk
			}
		}
	}
	c := markerCase{mk, extras, before}
	rec.SetCase(c)
	obs, exp, status, err := checkMarker(mk, extras, before...)
	if len(before) > 0 && status == "ok" {
		rec.Class("after-a-variant-of-itself")
	}
	if err != nil {
		t.Fatalf("harness/oracle failure: %v", err)
	}
	if status != "ok" {
		rec.ExcludedDomain(status)
		return
	}
	rec.Eval(1)
	atoms := 1 + strings.Count(mk, " and ") + strings.Count(mk, " or ")
	if atoms >= 2 || boundaryLits.MatchString(mk) {
		rec.NonTrivial(mk + "|" + strings.Join(extras, ","))
		rec.Class("nontrivial")
		if rec.WantSample() {
			rec.Sample(c)
		}
	}
	if obs != "" {
		if cl := knownMarkerClass(mk, extras); cl != "" {
			rec.ExcludedKnown(cl)
			return
		}
		rec.Fail(t, c, obs, exp)
	}
}

// NotEqualPostRelease: the PyPI constraint "!=V" is built as [0:V) plus (V:inf]
// and the matcher's ">V does not match post-releases of V" heuristic then also
// hides V.postN from "!=V"; packaging says V.postN != V is true.
var notEqualPostAtom = regexp.MustCompile(`(?i)!=\s*['"][^'"]*\.post[0-9]*['"]|['"][^'"]*\.post[0-9]*['"]\s*!=`)

// CompatibleReleaseVPrefix: packaging evaluates X ~= "v3.8" to false for every
// X: the specifier is accepted, but the prefix match it expands to ("== v3.*")
// compares the text "v3" with the number 3. The library reads v3.8 as 3.8.
var compatibleVPrefixAtom = regexp.MustCompile(`~=\s*['"]\s*[vV][0-9]|['"]\s*[vV][0-9][^'"]*['"]\s*~=`)

func knownMarkerClass(mk string, extras []string) string {
	if compatibleVPrefixAtom.MatchString(mk) && kf.Open("C16", "CompatibleReleaseVPrefix") {
		return "CompatibleReleaseVPrefix"
	}
	if notEqualPostAtom.MatchString(mk) && kf.Open("C16", "NotEqualPostRelease") {
		return "NotEqualPostRelease"
	}
	// PrereleaseLeftOfLess: "<V" is built as [0.0.0dev0:V); the dev lower bound
	// switches prerelease matching on, so a prerelease of V on the left of "<"
	// matches although PEP 440 (and packaging) exclude prereleases of V from "<V".
	if prereleaseLiteral.MatchString(mk) && strings.Contains(mk, "<") && kf.Open("C16", "PrereleaseLeftOfLess") {
		return "PrereleaseLeftOfLess"
	}
	return ""
}

func TestCorpus(t *testing.T) {
	rec.SetCheck("corpus")
	if pyNew == nil {
		return
	}
	for _, fd := range kf.For("C16") {
		var raw map[string]any
		json.Unmarshal(fd.Witness, &raw)
		if _, ok := raw["marker"]; ok {
			var c markerCase
			json.Unmarshal(fd.Witness, &c)
			if obs, _, _, _ := checkMarker(c.Marker, c.Extras); obs != "" {
				rec.Known(fd.ID, fd.Text+" ["+obs+"]")
			}
		} else {
			var c reqCase
			json.Unmarshal(fd.Witness, &c)
			if obs, _, _, _, _ := checkRequirement(c.Requirement); obs != "" {
				rec.Known(fd.ID, fd.Text+" ["+obs+"]")
			}
		}
	}
}

func TestRequirements(t *testing.T) {
	if pyNew == nil {
		t.Skip("packaging unavailable")
	}
	rec.Check(t, "requirement", ev.N(5000, 600000), reqProp)
	rec.Check(t, "name", ev.N(4000, 300000), nameProp)
}

func TestMarkers(t *testing.T) {
	if pyNew == nil {
		t.Skip("packaging unavailable")
	}
	rec.Check(t, "marker", ev.N(5000, 500000), markerProp)
}

func TestReplay(t *testing.T) {
	path := ev.ReplayFile()
	if path == "" {
		t.Skip("no replay file")
	}
	if pyNew == nil {
		t.Skip("packaging unavailable")
	}
	var raw map[string]any
	check, err := ev.ReadReplay(path, &raw)
	if err != nil {
		t.Fatal(err)
	}
	b, _ := json.Marshal(raw)
	switch check {
	case "marker":
		var c markerCase
		json.Unmarshal(b, &c)
		if obs, _, _, _ := checkMarker(c.Marker, c.Extras, c.Before...); obs != "" && knownMarkerClass(c.Marker, c.Extras) == "" {
			t.Fatal("replay fails: " + obs)
		}
	case "name":
		if obs, _, _ := checkName(fmt.Sprint(raw["name"])); obs != "" {
			t.Fatal("replay fails: " + obs)
		}
	default:
		var c reqCase
		json.Unmarshal(b, &c)
		if obs, _, _, _, _ := checkRequirement(c.Requirement); obs != "" && knownReqClass(c.Requirement, obs) == "" {
			t.Fatal("replay fails: " + obs)
		}
	}
}
