// C02 — version ordering agrees with each ecosystem's own implementation.
package c02

import (
	"encoding/json"
	"fmt"
	"os"
	"regexp"
	"strings"
	"testing"

	"deps.dev/util/resolve/verifh/internal/ev"
	"deps.dev/util/resolve/verifh/internal/gen"
	"deps.dev/util/resolve/verifh/internal/known"
	"deps.dev/util/resolve/verifh/internal/oracle"
	"deps.dev/util/semver"
	xsemver "golang.org/x/mod/semver"
	"pgregory.net/rapid"
)

var rec = ev.New("C02")
var kf *known.File

func TestMain(m *testing.M) {
	kf, _ = known.Load(ev.KnownFile())
	rec.Rule("pairs of versions (base + neighbour mutation 60%) from each ecosystem's grammar; oracle = the ecosystem's own implementation run side by side: node-semver (7.x and the 5.7.1 shipped with npm 6, asserted where they agree), packaging 26.x and pip's vendored 21.3 (asserted where they agree), Rust semver 1.0.28, golang.org/x/mod/semver, maven-artifact ComparableVersion, and harness transcriptions of Gem::Version and NuGet SemVer2. Checked: same ordering on pairs both sides accept; the reference's normal form always parses. Non-trivial: distinct strings, accepted by both sides, same first numeric component. Distinct = distinct (ecosystem, a, b).")
	rec.Assume("Maven differential domain excludes qualifiers introduced by '.' (installed Maven 3.8.7 changed that rule; the library documents 3.6.0/3.8.6) and ga/final/release followed by a number (excluded by the property)")
	rec.Assume("RubyGems and NuGet references are harness transcriptions of the published algorithms (no Ruby/.NET in the sandbox)")
	code := m.Run()
	for _, s := range servers {
		s.Close()
	}
	rec.Flush()
	os.Exit(code)
}

var servers []*oracle.Server

func start(t *testing.T, kind string) *oracle.Server {
	s, err := oracle.Start(kind)
	if err != nil {
		t.Logf("oracle %s unavailable: %v", kind, err)
		rec.Extra("oracle_unavailable_"+kind, true)
		return nil
	}
	servers = append(servers, s)
	rec.Extra("oracle_"+kind, s.Version)
	return s
}

type pairCase struct {
	Ecosystem string `json:"ecosystem"`
	A         string `json:"a"`
	B         string `json:"b"`
}

// refFunc returns the reference's verdict on a pair.
// status: "ok" | "reject" (reference rejects an input) | "drift" (references disagree)
type refFunc func(a, b string) (na, nb string, cmp int, status string, err error)

type eco struct {
	name string
	sys  semver.System
	g    *rapid.Generator[string]
	ref  refFunc
}

func atoiSign(s string) (int, bool) {
	switch s {
	case "-1":
		return -1, true
	case "0":
		return 0, true
	case "1":
		return 1, true
	}
	return 0, false
}

func sgn(x int) int {
	switch {
	case x < 0:
		return -1
	case x > 0:
		return 1
	}
	return 0
}

func firstNum(s string) string {
	s = strings.TrimLeft(s, "vV")
	if i := strings.IndexByte(s, '!'); i >= 0 {
		s = s[i+1:]
	}
	i := 0
	for i < len(s) && s[i] >= '0' && s[i] <= '9' {
		i++
	}
	return strings.TrimLeft(s[:i], "0")
}

type verdict struct {
	inDomain bool
	why      string // reason when not in domain
	obs, exp string // violation
	libA     bool   // library accepted a
	libB     bool
}

func evaluate(e *eco, a, b string) (verdict, error) {
	if !oracle.Clean(a, b) {
		return verdict{why: "unclean"}, nil
	}
	na, nb, rc, status, err := e.ref(a, b)
	if err != nil {
		return verdict{}, err
	}
	if status != "ok" {
		return verdict{why: "reference-" + status}, nil
	}
	v := verdict{inDomain: true}
	// Acceptance clause: the reference's normal form parses.
	pna, errA := e.sys.Parse(na)
	if errA != nil {
		v.obs, v.exp = fmt.Sprintf("reference accepts %q with normal form %q, which Parse rejects: %v", a, na, errA), "normal form accepted"
		return v, nil
	}
	pnb, errB := e.sys.Parse(nb)
	if errB != nil {
		v.obs, v.exp = fmt.Sprintf("reference accepts %q with normal form %q, which Parse rejects: %v", b, nb, errB), "normal form accepted"
		return v, nil
	}
	if c := sgn(pna.Compare(pnb)); c != rc {
		v.obs, v.exp = fmt.Sprintf("normal forms %q vs %q: library %d, reference %d", na, nb, c, rc), fmt.Sprint(rc)
		return v, nil
	}
	pa, ea := e.sys.Parse(a)
	pb, eb := e.sys.Parse(b)
	v.libA, v.libB = ea == nil, eb == nil
	if ea == nil && eb == nil {
		if c := sgn(pa.Compare(pb)); c != rc {
			v.obs, v.exp = fmt.Sprintf("%q vs %q: library %d, reference %d", a, b, c, rc), fmt.Sprint(rc)
			return v, nil
		}
		if c := sgn(pb.Compare(pa)); c != -rc {
			v.obs, v.exp = fmt.Sprintf("%q vs %q: library %d, reference %d", b, a, c, -rc), fmt.Sprint(-rc)
			return v, nil
		}
	}
	return v, nil
}

func pairProp(e *eco) func(*rapid.T) {
	return func(t *rapid.T) {
		a := e.g.Draw(t, "a")
		var b string
		if rapid.IntRange(0, 9).Draw(t, "near") < 6 {
			b = gen.Neighbour(e.sys, a).Draw(t, "b")
			if rapid.IntRange(0, 2).Draw(t, "twice") == 0 {
				b = gen.Neighbour(e.sys, b).Draw(t, "b2")
			}
		} else {
			b = e.g.Draw(t, "b3")
		}
		if rapid.Bool().Draw(t, "swap") {
			a, b = b, a
		}
		c := pairCase{e.name, a, b}
		rec.SetCase(c)
		v, err := evaluate(e, a, b)
		if err != nil {
			t.Fatalf("oracle failure: %v", err)
		}
		// A listed finding excuses a disagreement only if it explains it.
		if v.inDomain && v.obs != "" {
			if cl := explainedBy(e, a, b); cl != "" {
				rec.ExcludedKnown(cl)
				return
			}
		}
		if !v.inDomain {
			rec.ExcludedDomain(v.why)
			return
		}
		rec.Eval(1)
		if !v.libA || !v.libB {
			rec.Class("library-rejects-non-normal-spelling")
		} else if a != b && firstNum(a) == firstNum(b) {
			rec.NonTrivial(e.name + "|" + a + "|" + b)
			rec.Class("nontrivial")
			if rec.WantSample() {
				rec.Sample(c)
			}
		}
		if v.obs != "" {
			rec.Fail(t, c, v.obs, v.exp)
		}
	}
}

// ---- known-finding classes -------------------------------------------------

// ComponentAtOrAboveInt64Max: the library stores components in an int64 and
// reserves 2^63-1 as "infinity", so a component >= 9223372036854775807 is
// rejected although every reference accepts it.
//
// MavenReleaseQualifierBeforeSnapshot: the library drops ga/final/release
// wherever it occurs; Maven only drops it at the end of a list, so
// "3-release-SNAPSHOT" differs from "3-SNAPSHOT" in Maven and not here.
//
// MavenQualifierZeroBeforeSnapshot: "1xyz-0-SNAPSHOT" vs "1xyz.0-SNAPSHOT":
// Maven's nested-list structure distinguishes the separator before a zero
// that is later trimmed; the library's flat element list does not.
//
// RubyGemsUppercase: the library lower-cases RubyGems versions before
// comparing; Gem::Version compares string segments case-sensitively.
var (
	digitRun              = regexp.MustCompile(`[0-9]{19,}`)
	mvnReleaseBeforeSnap  = regexp.MustCompile(`(?i)(ga|final|release)-snapshot`)
	mvnQualZeroBeforeSnap = regexp.MustCompile(`(?i)[a-z][-.]?0+-snapshot`)
)

func hasHugeComponent(s string) bool {
	for _, m := range digitRun.FindAllString(s, -1) {
		m = strings.TrimLeft(m, "0")
		if len(m) > 19 || (len(m) == 19 && m >= "9223372036854775807") {
			return true
		}
	}
	return false
}

func hasUpper(s string) bool {
	for i := 0; i < len(s); i++ {
		if s[i] >= 'A' && s[i] <= 'Z' {
			return true
		}
	}
	return false
}

// explainedBy returns the listed finding that accounts for a disagreement on
// (a, b), or "". RubyGems upper case: the finding is that the library folds
// case, so it explains the disagreement only if the reference, given the
// lower-cased pair, agrees with the library.
func explainedBy(e *eco, a, b string) string {
	cl := knownClass(e, a, b)
	if cl == "RubyGemsUppercase" {
		// "the library folds case": what the library says about (a, b) as
		// written must be what the reference says about the lower-cased pair
		// (a defect that shows on upper-case input only is not explained).
		_, _, rc, status, err := e.ref(strings.ToLower(a), strings.ToLower(b))
		if err != nil || status != "ok" {
			return ""
		}
		pa, ea := e.sys.Parse(a)
		pb, eb := e.sys.Parse(b)
		if ea != nil || eb != nil || sgn(pa.Compare(pb)) != rc || sgn(pb.Compare(pa)) != -rc {
			return ""
		}
	}
	return cl
}

func knownClass(e *eco, a, b string) string {
	if (hasHugeComponent(a) || hasHugeComponent(b)) && kf.Open("C02", "ComponentAtOrAboveInt64Max") {
		return "ComponentAtOrAboveInt64Max"
	}
	switch e.name {
	case "maven":
		if (mvnReleaseBeforeSnap.MatchString(a) || mvnReleaseBeforeSnap.MatchString(b)) && kf.Open("C02", "MavenReleaseQualifierBeforeSnapshot") {
			return "MavenReleaseQualifierBeforeSnapshot"
		}
		if (mvnQualZeroBeforeSnap.MatchString(a) || mvnQualZeroBeforeSnap.MatchString(b)) && kf.Open("C02", "MavenQualifierZeroBeforeSnapshot") {
			return "MavenQualifierZeroBeforeSnapshot"
		}
	case "rubygems":
		if (hasUpper(a) || hasUpper(b)) && kf.Open("C02", "RubyGemsUppercase") {
			return "RubyGemsUppercase"
		}
	}
	return ""
}

// ---- references --------------------------------------------------------------

func npmRef(s *oracle.Server) refFunc {
	return func(a, b string) (string, string, int, string, error) {
		na7, na5, err := s.Ask2("valid", a)
		if err != nil {
			return "", "", 0, "", err
		}
		nb7, nb5, err := s.Ask2("valid", b)
		if err != nil {
			return "", "", 0, "", err
		}
		if na7 == "null" || nb7 == "null" || na7 == "E" || nb7 == "E" {
			return "", "", 0, "reject", nil
		}
		if na5 != "-" && (na5 != na7 || nb5 != nb7) {
			return "", "", 0, "drift", nil
		}
		c7, c5, err := s.Ask2("cmp", a, b)
		if err != nil {
			return "", "", 0, "", err
		}
		if c5 != "-" && c5 != c7 {
			return "", "", 0, "drift", nil
		}
		c, ok := atoiSign(c7)
		if !ok {
			return "", "", 0, "reject", nil
		}
		return na7, nb7, c, "ok", nil
	}
}

func lineRef(s *oracle.Server, verOp string) refFunc {
	return func(a, b string) (string, string, int, string, error) {
		na, err := s.Ask(verOp, a)
		if err != nil {
			return "", "", 0, "", err
		}
		nb, err := s.Ask(verOp, b)
		if err != nil {
			return "", "", 0, "", err
		}
		if strings.HasPrefix(na, "E") || strings.HasPrefix(nb, "E") {
			return "", "", 0, "reject", nil
		}
		cs, err := s.Ask("cmp", a, b)
		if err != nil {
			return "", "", 0, "", err
		}
		c, ok := atoiSign(cs)
		if !ok {
			return "", "", 0, "reject", nil
		}
		return na, nb, c, "ok", nil
	}
}

// pyRef asserts only where packaging 26.x and pip's vendored 21.3 agree.
func pyRef(newer, older *oracle.Server) refFunc {
	rn := lineRef(newer, "ver")
	var ro refFunc
	if older != nil {
		ro = lineRef(older, "ver")
	}
	return func(a, b string) (string, string, int, string, error) {
		na, nb, c, st, err := rn(a, b)
		if err != nil || ro == nil {
			return na, nb, c, st, err
		}
		oa, ob, oc, ost, err := ro(a, b)
		if err != nil {
			return "", "", 0, "", err
		}
		if st != ost || (st == "ok" && (na != oa || nb != ob || c != oc)) {
			return "", "", 0, "drift", nil
		}
		return na, nb, c, st, nil
	}
}

func mavenRef(s *oracle.Server) refFunc {
	return func(a, b string) (string, string, int, string, error) {
		if !gen.InMavenDomain(a) || !gen.InMavenDomain(b) || !mavenDifferential(a) || !mavenDifferential(b) {
			return "", "", 0, "reject", nil
		}
		cs, err := s.Ask("cmp", a, b)
		if err != nil {
			return "", "", 0, "", err
		}
		c, ok := atoiSign(cs)
		if !ok {
			return "", "", 0, "reject", nil
		}
		return a, b, c, "ok", nil
	}
}

// mavenDifferential: DESIGN §6.4 differential sub-domain (after neighbour
// mutation a string may have left it).
func mavenDifferential(s string) bool {
	ls := strings.ToLower(s)
	// no qualifier introduced by '.'
	for i := 0; i+1 < len(ls); i++ {
		if ls[i] == '.' && ls[i+1] >= 'a' && ls[i+1] <= 'z' {
			return false
		}
	}
	// no release-equivalent qualifier followed by a number
	for _, q := range []string{"ga", "final", "release"} {
		for i := 0; ; {
			j := strings.Index(ls[i:], q)
			if j < 0 {
				break
			}
			k := i + j + len(q)
			// must be a whole alphabetic token
			startOK := i+j == 0 || !(ls[i+j-1] >= 'a' && ls[i+j-1] <= 'z')
			endOK := k >= len(ls) || !(ls[k] >= 'a' && ls[k] <= 'z')
			if startOK && endOK {
				rest := strings.TrimLeft(ls[k:], "-.")
				if len(rest) > 0 && rest[0] >= '0' && rest[0] <= '9' {
					return false
				}
			}
			i = k
			if i >= len(ls) {
				break
			}
		}
	}
	return true
}

func goRef(a, b string) (string, string, int, string, error) {
	if !xsemver.IsValid(a) || !xsemver.IsValid(b) {
		return "", "", 0, "reject", nil
	}
	return xsemver.Canonical(a), xsemver.Canonical(b), xsemver.Compare(a, b), "ok", nil
}

func gemRef(a, b string) (string, string, int, string, error) {
	ga, ok1 := oracle.GemParse(a)
	gb, ok2 := oracle.GemParse(b)
	if !ok1 || !ok2 || strings.TrimSpace(a) == "" || strings.TrimSpace(b) == "" {
		return "", "", 0, "reject", nil
	}
	// Gem::Version#to_s of "1-x-" is "1.pre.x.pre.", which Gem::Version itself
	// rejects; such inputs have no re-parsable normal form.
	if !oracle.GemCorrect(ga.Normal()) || !oracle.GemCorrect(gb.Normal()) {
		return "", "", 0, "reject", nil
	}
	return ga.Normal(), gb.Normal(), oracle.GemCompare(ga, gb), "ok", nil
}

func nugetRef(a, b string) (string, string, int, string, error) {
	na, ok1 := oracle.NuGetParse(a)
	nb, ok2 := oracle.NuGetParse(b)
	if !ok1 || !ok2 {
		return "", "", 0, "reject", nil
	}
	return na.Normal(), nb.Normal(), oracle.NuGetCompare(na, nb), "ok", nil
}

func ecosystems(t *testing.T) []*eco {
	var out []*eco
	if s := start(t, "npm"); s != nil {
		out = append(out, &eco{"npm", semver.NPM, gen.SemverLike(semver.NPM, gen.SemverOpts{Strict: true}), npmRef(s)})
	}
	if s := start(t, "rust"); s != nil {
		out = append(out, &eco{"cargo", semver.Cargo, gen.SemverLike(semver.Cargo, gen.SemverOpts{Strict: true}), lineRef(s, "ver")})
	}
	out = append(out, &eco{"go", semver.Go, gen.SemverLike(semver.Go, gen.SemverOpts{Strict: true}), goRef})
	if s := start(t, "py"); s != nil {
		out = append(out, &eco{"pypi", semver.PyPI, gen.PEP440(false), pyRef(s, start(t, "pyold"))})
	}
	if s := start(t, "mvn"); s != nil {
		out = append(out, &eco{"maven", semver.Maven, gen.Maven(gen.MavenOpts{Differential: true}), mavenRef(s)})
	}
	out = append(out, &eco{"rubygems", semver.RubyGems, gen.RubyGems(false), gemRef})
	out = append(out, &eco{"nuget", semver.NuGet, gen.NuGet(), nugetRef})
	return out
}

var ecoCache []*eco

func getEcos(t *testing.T) []*eco {
	if ecoCache == nil {
		ecoCache = ecosystems(t)
	}
	return ecoCache
}

func ecoByName(t *testing.T, name string) *eco {
	for _, e := range getEcos(t) {
		if e.name == name {
			return e
		}
	}
	return nil
}

func TestCorpus(t *testing.T) {
	rec.SetCheck("corpus")
	for _, fd := range kf.For("C02") {
		var c pairCase
		if err := json.Unmarshal(fd.Witness, &c); err != nil {
			t.Fatalf("bad witness %s: %v", fd.ID, err)
		}
		e := ecoByName(t, c.Ecosystem)
		if e == nil {
			continue
		}
		v, err := evaluate(e, c.A, c.B)
		if err != nil {
			t.Fatal(err)
		}
		if v.inDomain && v.obs != "" {
			rec.Known(fd.ID, fd.Text+" ["+v.obs+"]")
		}
	}
}

func TestOrdering(t *testing.T) {
	for _, e := range getEcos(t) {
		rec.Check(t, "order/"+e.name, ev.N(12000, 1000000), pairProp(e))
	}
}

func TestReplay(t *testing.T) {
	path := ev.ReplayFile()
	if path == "" {
		t.Skip("no replay file")
	}
	var c pairCase
	if _, err := ev.ReadReplay(path, &c); err != nil {
		t.Fatal(err)
	}
	e := ecoByName(t, c.Ecosystem)
	if e == nil {
		t.Skip("reference unavailable")
	}
	v, err := evaluate(e, c.A, c.B)
	if err != nil {
		t.Fatal(err)
	}
	if v.inDomain && v.obs != "" && explainedBy(e, c.A, c.B) == "" {
		t.Fatalf("replay fails: %s (expected %s)", v.obs, v.exp)
	}
}
