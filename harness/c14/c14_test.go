// C14 — the in-memory client reports exactly what was last added.
package c14

import (
	"context"
	"encoding/json"
	"errors"
	"fmt"
	"sort"
	"strings"
	"testing"

	"deps.dev/util/resolve"
	"deps.dev/util/resolve/dep"
	"deps.dev/util/resolve/verifh/internal/ev"
	"deps.dev/util/resolve/verifh/internal/known"
	"deps.dev/util/resolve/verifh/internal/refmodel"
	"deps.dev/util/resolve/version"
	"pgregory.net/rapid"
)

var rec = ev.New("C14")
var kf *known.File

func TestMain(m *testing.M) {
	kf, _ = known.Load(ev.KnownFile())
	rec.Rule("rapid state machine: histories of up to 60 steps over a small key space (4 packages x 6 version strings, three systems): AddVersion (new or repeated key, random attributes incl. Deleted, requirement lists incl. unseen packages) interleaved with Version/Versions/Requirements/MatchingVersions; oracle = map-based reference model compared on the whole key space after every step. One evaluation = one step with its full comparison. Non-trivial: the history re-adds an existing key with different attributes or requirements (and the comparison that follows looks that key up). Distinct = distinct history text. Every lookup is repeated with a Requirement-typed key, which was never added.")
	ev.Main(m, rec)
}

// ---- history representation (replayable without the library) ---------------

type reqSpec struct {
	Name    string `json:"name"`
	Req     string `json:"req"`
	Dev     bool   `json:"dev,omitempty"`
	Opt     bool   `json:"opt,omitempty"`
	Scope   string `json:"scope,omitempty"`
	KnownAs string `json:"known_as,omitempty"`
}

type addOp struct {
	Pkg     string    `json:"pkg"`
	Version string    `json:"version"`
	Blocked bool      `json:"blocked,omitempty"`
	Deleted bool      `json:"deleted,omitempty"`
	Error   bool      `json:"error,omitempty"`
	Tags    string    `json:"tags,omitempty"`
	Redir   string    `json:"redirect,omitempty"`
	Reqs    []reqSpec `json:"reqs"`
}

type history struct {
	System string  `json:"system"`
	Ops    []addOp `json:"ops"`
}

var systems = map[string]resolve.System{"NPM": resolve.NPM, "Maven": resolve.Maven, "PyPI": resolve.PyPI}

var pkgs = []string{"a", "b", "B", "c"}
var unseenPkgs = []string{"z1", "z2"}

var versionPool = map[string][]string{
	"NPM":   {"1.0.0", "v1.0.0", "1.0.0-alpha", "2.0.0", "1.2.3", "not-a-version", "1.0.0+b", "2.0.0-beta.1", "2.0.0-beta.2", "0.9.0", "3.0.0-rc.1"},
	"Maven": {"1.0", "1.0.0", "1.0-alpha", "2.0", "1.0-SNAPSHOT", "1.0.1"},
	"PyPI":  {"1.0", "1.0.0", "1.0a1", "2.0", "1.0.post1", "1.0.1"},
}

var reqPool = map[string][]string{
	"NPM":   {"^1.0.0", "*", "latest", "1.0.0", ">=1.0.0 <2.0.0", "next", "not-a-version", "~1.2", "1.x || 2.x"},
	"Maven": {"1.0", "[1.0,2.0)", "[1.0]", "(,1.0]", "2.0", "[1.0.1,)"},
	"PyPI":  {">=1.0", "==1.0", "<2.0", "~=1.0", "!=1.0", ">=1.0a1", ""},
}

func (a addOp) attrs() version.AttrSet {
	var s version.AttrSet
	if a.Blocked {
		s.SetAttr(version.Blocked, "")
	}
	if a.Deleted {
		s.SetAttr(version.Deleted, "")
	}
	if a.Error {
		s.SetAttr(version.Error, "")
	}
	if a.Tags != "" {
		s.SetAttr(version.Tags, a.Tags)
	}
	if a.Redir != "" {
		s.SetAttr(version.Redirect, a.Redir)
	}
	return s
}

func (r reqSpec) rv(sys resolve.System) resolve.RequirementVersion {
	var t dep.Type
	if r.Dev {
		t.AddAttr(dep.Dev, "")
	}
	if r.Opt {
		t.AddAttr(dep.Opt, "")
	}
	if r.Scope != "" {
		t.AddAttr(dep.Scope, r.Scope)
	}
	if r.KnownAs != "" {
		t.AddAttr(dep.KnownAs, r.KnownAs)
	}
	return resolve.RequirementVersion{
		VersionKey: resolve.VersionKey{PackageKey: resolve.PackageKey{System: sys, Name: r.Name}, VersionType: resolve.Requirement, Version: r.Req},
		Type:       t,
	}
}

func vkey(sys resolve.System, pkg, ver string) resolve.VersionKey {
	return resolve.VersionKey{PackageKey: resolve.PackageKey{System: sys, Name: pkg}, VersionType: resolve.Concrete, Version: ver}
}

// ---- reference model -------------------------------------------------------

type entry struct {
	op addOp
}

type model struct {
	sys      resolve.System
	sysName  string
	versions map[string]map[string]entry // pkg -> version -> last non-deleted addition
	known    map[string]bool             // packages that must be known
}

func newModel(sysName string) *model {
	return &model{sys: systems[sysName], sysName: sysName, versions: map[string]map[string]entry{}, known: map[string]bool{}}
}

func (m *model) add(op addOp) {
	if op.Deleted {
		return // a Deleted addition is ignored
	}
	if m.versions[op.Pkg] == nil {
		m.versions[op.Pkg] = map[string]entry{}
	}
	m.versions[op.Pkg][op.Version] = entry{op}
	m.known[op.Pkg] = true
	for _, r := range op.Reqs {
		m.known[r.Name] = true
	}
}

func (m *model) recs(pkg string) []refmodel.Rec {
	var out []refmodel.Rec
	for v, e := range m.versions[pkg] {
		out = append(out, refmodel.Rec{Version: v, Tags: e.op.Tags})
	}
	sort.Slice(out, func(i, j int) bool { return out[i].Version < out[j].Version })
	return out
}

// ---- comparison of the client with the model over the whole key space -------

func compare(lc *resolve.LocalClient, m *model) (string, string) {
	ctx := context.Background()
	sv := m.sys.Semver()
	allPkgs := append(append([]string(nil), pkgs...), unseenPkgs...)
	allPkgs = append(allPkgs, "never")
	for _, p := range allPkgs {
		pk := resolve.PackageKey{System: m.sys, Name: p}
		vs, err := lc.Versions(ctx, pk)
		if !m.known[p] {
			if err == nil || !errors.Is(err, resolve.ErrNotFound) {
				return fmt.Sprintf("Versions(%s) = %v, %v for a package never added nor required", p, vs, err), "ErrNotFound"
			}
			if _, err := lc.MatchingVersions(ctx, resolve.VersionKey{PackageKey: pk, VersionType: resolve.Requirement, Version: "*"}); err == nil || !errors.Is(err, resolve.ErrNotFound) {
				return fmt.Sprintf("MatchingVersions on unknown package %s: err=%v", p, err), "ErrNotFound"
			}
			continue
		}
		if err != nil {
			return fmt.Sprintf("Versions(%s) fails with %v although the package was added or named in a requirement", p, err), "known package (possibly empty)"
		}
		recs := m.recs(p)
		var got []string
		for _, v := range vs {
			got = append(got, v.Version)
			if v.PackageKey != pk || v.VersionType != resolve.Concrete {
				return fmt.Sprintf("Versions(%s) returned foreign key %v", p, v.VersionKey), "own concrete versions"
			}
		}
		// each added version exactly once
		gs := append([]string(nil), got...)
		sort.Strings(gs)
		var ws []string
		for _, r := range recs {
			ws = append(ws, r.Version)
		}
		if strings.Join(gs, "\x00") != strings.Join(ws, "\x00") {
			return fmt.Sprintf("Versions(%s) lists %q; added (non-deleted): %q", p, got, ws), "each added version once"
		}
		// ascending ecosystem order
		if refmodel.CountLatest(recs) <= 1 {
			if want := refmodel.SortedClasses(sv, recs); !refmodel.SameClasses(got, want) {
				return fmt.Sprintf("Versions(%s) order %q; expected classes %q", p, got, want), "ascending order"
			}
		}
		// attributes of the most recent addition
		listingRecs := make([]refmodel.Rec, len(vs))
		for i, v := range vs {
			e := m.versions[p][v.Version]
			if !v.AttrSet.Equal(e.op.attrs()) {
				return fmt.Sprintf("Versions(%s) reports %s with attributes %v; last added %v", p, v.Version, v.AttrSet, e.op.attrs()), "attributes of the most recent addition"
			}
			listingRecs[i] = refmodel.Rec{Version: v.Version, Tags: e.op.Tags}
		}
		// MatchingVersions for every requirement string of the pool
		for _, req := range reqPool[m.sysName] {
			ms, err := lc.MatchingVersions(ctx, resolve.VersionKey{PackageKey: pk, VersionType: resolve.Requirement, Version: req})
			if err != nil {
				return fmt.Sprintf("MatchingVersions(%s, %q) fails: %v", p, req, err), "no error for a known package"
			}
			var gm []string
			for _, v := range ms {
				gm = append(gm, v.Version)
				if e, ok := m.versions[p][v.Version]; !ok || !v.AttrSet.Equal(e.op.attrs()) {
					return fmt.Sprintf("MatchingVersions(%s, %q) returns %s with attributes %v", p, req, v.Version, v.AttrSet), "attributes of the most recent addition"
				}
			}
			want := refmodel.Matches(sv, req, listingRecs)
			if strings.Join(gm, "\x00") != strings.Join(want, "\x00") {
				return fmt.Sprintf("MatchingVersions(%s, %q) = %q; listing filtered by the requirement = %q", p, req, gm, want), "exactly the satisfying versions in listing order"
			}
		}
	}
	// per-version lookups
	for _, p := range allPkgs {
		for _, v := range append(append([]string(nil), versionPool[m.sysName]...), "9.9.9") {
			vk := vkey(m.sys, p, v)
			// a key of another version type was never added, whatever was added
			// under the same package and version string
			other := vk
			other.VersionType = resolve.Requirement
			if ov, oerr := lc.Version(ctx, other); oerr == nil || !errors.Is(oerr, resolve.ErrNotFound) {
				return fmt.Sprintf("Version(%s@%s as a Requirement key) = %v, %v though no such key was ever added", p, v, ov.VersionKey, oerr), "ErrNotFound"
			}
			got, err := lc.Version(ctx, vk)
			reqs, rerr := lc.Requirements(ctx, vk)
			e, ok := m.versions[p][v]
			if !ok {
				if err == nil || !errors.Is(err, resolve.ErrNotFound) {
					return fmt.Sprintf("Version(%s@%s) = %v, %v though never added (or only as deleted)", p, v, got, err), "ErrNotFound"
				}
				if rerr == nil || !errors.Is(rerr, resolve.ErrNotFound) {
					return fmt.Sprintf("Requirements(%s@%s) = %v, %v though never added (or only as deleted)", p, v, reqs, rerr), "ErrNotFound"
				}
				continue
			}
			if err != nil {
				return fmt.Sprintf("Version(%s@%s) fails: %v", p, v, err), "found"
			}
			if got.VersionKey != vk || !got.AttrSet.Equal(e.op.attrs()) {
				return fmt.Sprintf("Version(%s@%s) has attributes %v; most recent addition had %v", p, v, got.AttrSet, e.op.attrs()), "attributes of the most recent addition"
			}
			if rerr != nil {
				return fmt.Sprintf("Requirements(%s@%s) fails: %v", p, v, rerr), "found"
			}
			if obs := compareReqs(m.sys, reqs, e.op.Reqs); obs != "" {
				return fmt.Sprintf("Requirements(%s@%s): %s", p, v, obs), "requirements of the most recent addition, in resolution order"
			}
		}
	}
	return "", ""
}

func reqString(r resolve.RequirementVersion) string {
	return r.Name + "@" + r.Version + "[" + r.Type.String() + "]"
}

func compareReqs(sys resolve.System, got []resolve.RequirementVersion, want []reqSpec) string {
	var ws []resolve.RequirementVersion
	for _, r := range want {
		ws = append(ws, r.rv(sys))
	}
	var gs, wss []string
	for _, r := range got {
		gs = append(gs, reqString(r))
	}
	for _, r := range ws {
		wss = append(wss, reqString(r))
	}
	if sys != resolve.NPM {
		if strings.Join(gs, ", ") != strings.Join(wss, ", ") {
			return fmt.Sprintf("got [%s]; added [%s]", strings.Join(gs, ", "), strings.Join(wss, ", "))
		}
		return ""
	}
	a, b := append([]string(nil), gs...), append([]string(nil), wss...)
	sort.Strings(a)
	sort.Strings(b)
	if strings.Join(a, ", ") != strings.Join(b, ", ") {
		return fmt.Sprintf("got [%s]; added [%s]", strings.Join(gs, ", "), strings.Join(wss, ", "))
	}
	for i := 1; i < len(got); i++ {
		if refmodel.DepCompare(got[i-1], got[i]) > 0 {
			return fmt.Sprintf("not in npm resolution order: %s before %s", gs[i-1], gs[i])
		}
	}
	return ""
}

// ---- generation -------------------------------------------------------------

func drawAdd(t *rapid.T, sysName string) addOp {
	op := addOp{
		Pkg:     rapid.SampledFrom(pkgs).Draw(t, "pkg"),
		Version: rapid.SampledFrom(versionPool[sysName]).Draw(t, "version"),
	}
	op.Blocked = rapid.IntRange(0, 4).Draw(t, "blocked") == 0
	op.Deleted = rapid.IntRange(0, 6).Draw(t, "deleted") == 0
	op.Error = rapid.IntRange(0, 7).Draw(t, "error") == 0
	if sysName == "NPM" {
		op.Tags = rapid.SampledFrom([]string{"", "", "", "latest", "next", "next,latest", "beta", "notlatest"}).Draw(t, "tags")
	}
	op.Redir = rapid.SampledFrom([]string{"", "", "", "there", "a b"}).Draw(t, "redirect")
	n := rapid.IntRange(0, 4).Draw(t, "nreqs")
	for i := 0; i < n; i++ {
		r := reqSpec{
			Name: rapid.SampledFrom(append(append([]string(nil), pkgs...), unseenPkgs...)).Draw(t, "rname"),
			Req:  rapid.SampledFrom(reqPool[sysName]).Draw(t, "rreq"),
		}
		switch rapid.IntRange(0, 9).Draw(t, "rtype") {
		case 8, 9:
			// combinations: the documented order treats only a *plain* dev
			// dependency specially, an aliased or scoped dev dependency sorts by name
			r.Dev = rapid.Bool().Draw(t, "cdev")
			r.Opt = rapid.IntRange(0, 3).Draw(t, "copt") == 0
			if sysName == "NPM" {
				if rapid.Bool().Draw(t, "calias") {
					r.KnownAs = rapid.SampledFrom([]string{"alias", "A", "b", "Zed", "aaa"}).Draw(t, "alias2")
				}
				if rapid.IntRange(0, 2).Draw(t, "cscope") == 0 {
					r.Scope = rapid.SampledFrom([]string{"peer", "bundle"}).Draw(t, "scope2")
				}
			}
		case 0:
			r.Dev = true
		case 1:
			r.Opt = true
		case 2:
			if sysName == "NPM" {
				r.Scope = rapid.SampledFrom([]string{"peer", "bundle"}).Draw(t, "scope")
			} else if sysName == "Maven" {
				r.Scope = rapid.SampledFrom([]string{"provided", "runtime"}).Draw(t, "scope")
			}
		case 3:
			if sysName == "NPM" {
				r.KnownAs = rapid.SampledFrom([]string{"alias", "A", "b", "Zed"}).Draw(t, "alias")
			}
		}
		op.Reqs = append(op.Reqs, r)
	}
	return op
}

func apply(lc *resolve.LocalClient, sys resolve.System, op addOp) {
	var deps []resolve.RequirementVersion
	for _, r := range op.Reqs {
		deps = append(deps, r.rv(sys))
	}
	lc.AddVersion(resolve.Version{VersionKey: vkey(sys, op.Pkg, op.Version), AttrSet: op.attrs()}, deps)
}

// runHistory replays a history against a fresh client and the model,
// comparing after every step.
func runHistory(h history) (step int, obs, exp string) {
	lc := resolve.NewLocalClient()
	m := newModel(h.System)
	if obs, exp := compare(lc, m); obs != "" {
		return 0, obs, exp
	}
	for i, op := range h.Ops {
		apply(lc, m.sys, op)
		m.add(op)
		if obs, exp := compare(lc, m); obs != "" {
			return i + 1, obs, exp
		}
	}
	return -1, "", ""
}

func sameEntry(a, b addOp) bool {
	ja, _ := json.Marshal(a)
	jb, _ := json.Marshal(b)
	return string(ja) == string(jb)
}

func machine(sysName string) func(*rapid.T) {
	return func(t *rapid.T) {
		lc := resolve.NewLocalClient()
		m := newModel(sysName)
		h := history{System: sysName}
		readd := false
		t.Repeat(map[string]func(*rapid.T){
			"add": func(t *rapid.T) {
				op := drawAdd(t, sysName)
				if e, ok := m.versions[op.Pkg][op.Version]; ok && !op.Deleted && !sameEntry(e.op, op) {
					readd = true
				}
				h.Ops = append(h.Ops, op)
				rec.SetCase(h)
				apply(lc, m.sys, op)
				m.add(op)
			},
			"": func(t *rapid.T) {
				rec.Eval(1)
				if obs, exp := compare(lc, m); obs != "" {
					rec.Fail(t, h, obs, exp)
				}
			},
		})
		if readd {
			b, _ := json.Marshal(h)
			rec.NonTrivial(string(b))
			rec.Class("re-add-with-change")
			if rec.WantSample() {
				rec.Sample(h)
			}
		}
		rec.ClassN("steps", len(h.Ops))
	}
}

func TestCorpus(t *testing.T) {
	rec.SetCheck("corpus")
	for _, fd := range kf.For("C14") {
		var h history
		if err := json.Unmarshal(fd.Witness, &h); err != nil {
			t.Fatalf("bad witness %s: %v", fd.ID, err)
		}
		if step, obs, _ := runHistory(h); step >= 0 {
			rec.Known(fd.ID, fd.Text+" ["+obs+"]")
		}
	}
}

func TestHistories(t *testing.T) {
	for _, s := range []string{"NPM", "Maven", "PyPI"} {
		rec.Check(t, "history/"+s, ev.N(500, 150000), machine(s))
	}
}

func TestReplay(t *testing.T) {
	path := ev.ReplayFile()
	if path == "" {
		t.Skip("no replay file")
	}
	var h history
	if _, err := ev.ReadReplay(path, &h); err != nil {
		t.Fatal(err)
	}
	if step, obs, exp := runHistory(h); step >= 0 {
		t.Fatalf("replay fails after step %d: %s (expected %s)", step, obs, exp)
	}
}
