// C17 — v3alpha is a wire-compatible superset of v3; Go bindings match the .proto.
package c17

import (
	"encoding/json"
	"fmt"
	"os"
	"reflect"
	"regexp"
	"sort"
	"strconv"
	"strings"
	"testing"

	pb "deps.dev/api/v3"
	pba "deps.dev/api/v3alpha"
	"deps.dev/util/resolve"
	"deps.dev/util/resolve/verifh/internal/ev"
	"deps.dev/util/resolve/verifh/internal/known"
	"google.golang.org/genproto/googleapis/api/annotations"
	"google.golang.org/grpc"
	"google.golang.org/protobuf/encoding/protojson"
	"google.golang.org/protobuf/proto"
	"google.golang.org/protobuf/reflect/protoreflect"
	"google.golang.org/protobuf/reflect/protoregistry"
	"google.golang.org/protobuf/types/known/timestamppb"
	"pgregory.net/rapid"
)

var rec = ev.New("C17")
var kf *known.File

func TestMain(m *testing.M) {
	kf, _ = known.Load(ev.KnownFile())
	rec.Rule("finite and enumerated completely: every service method, message, field, nested type, enum and enum value of deps_dev.v3 (embedded descriptor of the generated Go package) is compared with its deps_dev.v3alpha counterpart (number, kind, type, cardinality, oneof, JSON name, streaming flags, HTTP binding modulo the version prefix); every declaration parsed from the two committed .proto sources is compared both ways with the embedded descriptors, and the gRPC method tables with the service descriptors; every tagged field of every generated Go message struct is bound to the descriptor as the generator binds it (tag number and name name a field of the message, the Go field name is the Go spelling of that name, and a value written through the Go field is read back through the descriptor); every Go constant of an enum, read from the committed api.pb.go, has the Go type of its enum and the number of the enum value it is named after, and every enum value has its constant; in addition random instances of every v3 message are marshalled and read back as the v3alpha message of the same name (no unknown fields, identical deterministic bytes, identical JSON). One evaluation = one descriptor element compared or one wire round trip. Non-trivial: every descriptor element (each is a distinct obligation); round trips with >= 3 populated fields. Distinct = distinct element path / distinct message bytes. Every enum value's Go form describes itself as its own enum and prints its own name.")
	rec.Assume("the .proto sources are parsed by a small proto3 parser in the harness (no protoc offline); it covers the subset the two files use")
	ev.Main(m, rec)
}

func root() string {
	if r := os.Getenv("VERIF_REPO"); r != "" {
		return r
	}
	return "/repo"
}

// ---- normalised description of a file -------------------------------------------

// describe flattens a file descriptor into path -> canonical text.
func describe(fd protoreflect.FileDescriptor) map[string]string {
	out := map[string]string{}
	pkg := string(fd.Package()) + "."
	rel := func(n protoreflect.FullName) string {
		s := string(n)
		if strings.HasPrefix(s, pkg) {
			return s[len(pkg):]
		}
		return "." + s // external type, fully qualified
	}
	var msgs func(ms protoreflect.MessageDescriptors)
	enums := func(es protoreflect.EnumDescriptors) {
		for i := 0; i < es.Len(); i++ {
			e := es.Get(i)
			out["enum:"+rel(e.FullName())] = ""
			for j := 0; j < e.Values().Len(); j++ {
				v := e.Values().Get(j)
				out["enumval:"+rel(e.FullName())+"."+string(v.Name())] = fmt.Sprint(v.Number())
			}
		}
	}
	msgs = func(ms protoreflect.MessageDescriptors) {
		for i := 0; i < ms.Len(); i++ {
			m := ms.Get(i)
			if m.IsMapEntry() {
				continue
			}
			out["msg:"+rel(m.FullName())] = ""
			for j := 0; j < m.Fields().Len(); j++ {
				f := m.Fields().Get(j)
				typ := f.Kind().String()
				card := f.Cardinality().String()
				switch {
				case f.IsMap():
					typ = "map<" + f.MapKey().Kind().String() + "," + fieldType(f.MapValue(), rel) + ">"
					card = "map"
				default:
					typ = fieldType(f, rel)
				}
				oneof := ""
				if od := f.ContainingOneof(); od != nil && !od.IsSynthetic() {
					oneof = string(od.Name())
				}
				out["field:"+rel(m.FullName())+"."+string(f.Name())] = fmt.Sprintf("number=%d type=%s card=%s oneof=%s json=%s optional=%v", f.Number(), typ, card, oneof, f.JSONName(), f.HasOptionalKeyword())
			}
			enums(m.Enums())
			msgs(m.Messages())
		}
	}
	msgs(fd.Messages())
	enums(fd.Enums())
	for i := 0; i < fd.Services().Len(); i++ {
		s := fd.Services().Get(i)
		out["service:"+string(s.Name())] = ""
		for j := 0; j < s.Methods().Len(); j++ {
			m := s.Methods().Get(j)
			verb, url, body := httpRule(m)
			out["rpc:"+string(s.Name())+"."+string(m.Name())] = fmt.Sprintf("in=%s out=%s cstream=%v sstream=%v http=%s:%s body=%s", rel(m.Input().FullName()), rel(m.Output().FullName()), m.IsStreamingClient(), m.IsStreamingServer(), verb, url, body)
		}
	}
	return out
}

func fieldType(f protoreflect.FieldDescriptor, rel func(protoreflect.FullName) string) string {
	switch f.Kind() {
	case protoreflect.MessageKind, protoreflect.GroupKind:
		return rel(f.Message().FullName())
	case protoreflect.EnumKind:
		return rel(f.Enum().FullName())
	}
	return f.Kind().String()
}

func httpRule(m protoreflect.MethodDescriptor) (verb, url, body string) {
	opts := m.Options()
	if opts == nil || !proto.HasExtension(opts, annotations.E_Http) {
		return "", "", ""
	}
	r := proto.GetExtension(opts, annotations.E_Http).(*annotations.HttpRule)
	switch p := r.Pattern.(type) {
	case *annotations.HttpRule_Get:
		verb, url = "get", p.Get
	case *annotations.HttpRule_Post:
		verb, url = "post", p.Post
	case *annotations.HttpRule_Put:
		verb, url = "put", p.Put
	case *annotations.HttpRule_Delete:
		verb, url = "delete", p.Delete
	case *annotations.HttpRule_Patch:
		verb, url = "patch", p.Patch
	}
	return verb, url, r.Body
}

// ---- description from the .proto source -----------------------------------------

var scalars = map[string]bool{"double": true, "float": true, "int32": true, "int64": true, "uint32": true, "uint64": true, "sint32": true, "sint64": true, "fixed32": true, "fixed64": true, "sfixed32": true, "sfixed64": true, "bool": true, "string": true, "bytes": true}

func jsonName(s string) string {
	var sb strings.Builder
	up := false
	for _, c := range s {
		if c == '_' {
			up = true
			continue
		}
		if up && c >= 'a' && c <= 'z' {
			c -= 32
		}
		up = false
		sb.WriteRune(c)
	}
	return sb.String()
}

func describeSource(f *pFile) map[string]string {
	out := map[string]string{}
	known := map[string]string{} // relative name -> "msg"/"enum"
	for _, m := range f.Messages {
		known[m.Name] = "msg"
	}
	for _, e := range f.Enums {
		known[e.Name] = "enum"
	}
	resolveType := func(scope, t string) string {
		if scalars[t] {
			return t
		}
		if strings.HasPrefix(t, f.Package+".") {
			return t[len(f.Package)+1:]
		}
		first := strings.SplitN(t, ".", 2)[0]
		for s := scope; ; {
			cand := first
			if s != "" {
				cand = s + "." + first
			}
			if _, ok := known[cand]; ok {
				if s == "" {
					return t
				}
				return s + "." + t
			}
			if s == "" {
				break
			}
			if i := strings.LastIndexByte(s, '.'); i >= 0 {
				s = s[:i]
			} else {
				s = ""
			}
		}
		return "." + t // external
	}
	kindOf := func(rt string) string {
		if scalars[rt] {
			return rt
		}
		return rt
	}
	for _, m := range f.Messages {
		out["msg:"+m.Name] = ""
		for _, fl := range m.Fields {
			card := "optional"
			typ := kindOf(resolveType(m.Name, fl.Type))
			if fl.MapKey != "" {
				card = "map"
				typ = "map<" + fl.MapKey + "," + kindOf(resolveType(m.Name, fl.MapVal)) + ">"
			} else if fl.Repeated {
				card = "repeated"
			}
			out["field:"+m.Name+"."+fl.Name] = fmt.Sprintf("number=%d type=%s card=%s oneof=%s json=%s optional=%v", fl.Number, typ, card, fl.Oneof, jsonName(fl.Name), fl.Optional)
		}
	}
	for _, e := range f.Enums {
		out["enum:"+e.Name] = ""
		for _, v := range e.Values {
			out["enumval:"+e.Name+"."+v.Name] = fmt.Sprint(v.Number)
		}
	}
	for _, s := range f.Services {
		out["service:"+s.Name] = ""
		for _, m := range s.Methods {
			out["rpc:"+s.Name+"."+m.Name] = fmt.Sprintf("in=%s out=%s cstream=%v sstream=%v http=%s:%s body=%s", resolveType("", m.In), resolveType("", m.Out), m.ClientStream, m.ServerStream, m.HTTPVerb, m.HTTPURL, m.HTTPBody)
		}
	}
	return out
}

// ---- comparisons ------------------------------------------------------------------

type elemCase struct {
	Check   string `json:"check"`
	Element string `json:"element"`
	Left    string `json:"left"`
	Right   string `json:"right"`
}

func sortedKeys(m map[string]string) []string {
	ks := make([]string, 0, len(m))
	for k := range m {
		ks = append(ks, k)
	}
	sort.Strings(ks)
	return ks
}

func report(t *testing.T, check string, c elemCase, obs, exp string) {
	rec.Violation(check, c, obs, exp)
	t.Errorf("%s: %s: %s", check, c.Element, obs)
}

// Oracle 1: v3 is contained in v3alpha.
func TestSubset(t *testing.T) {
	rec.SetCheck("v3-subset-of-v3alpha")
	a := describe(pb.File_api_proto)
	b := describe(pba.File_api_proto)
	n := 0
	for _, k := range sortedKeys(a) {
		rec.Eval(1)
		rec.NonTrivial(k)
		n++
		want := a[k]
		if strings.HasPrefix(k, "rpc:") {
			want = strings.Replace(want, "http=get:/v3/", "http=get:/v3alpha/", 1)
			want = strings.Replace(want, "http=post:/v3/", "http=post:/v3alpha/", 1)
		}
		got, ok := b[k]
		c := elemCase{"v3-subset-of-v3alpha", k, a[k], got}
		if n%40 == 1 && rec.WantSample() {
			rec.Sample(c)
		}
		if !ok {
			report(t, "v3-subset-of-v3alpha", c, "defined by v3 but missing from v3alpha", "present in v3alpha")
			continue
		}
		if got != want {
			report(t, "v3-subset-of-v3alpha", c, fmt.Sprintf("v3: %s; v3alpha: %s", a[k], got), "identical (HTTP path up to the version prefix)")
		}
	}
	rec.Extra("v3_elements", int64(n))
	rec.Extra("v3alpha_elements", int64(len(b)))
	rec.Extra("exhaustive", true)
}

// Oracle 2: the generated code describes exactly the committed .proto.
func TestSourceMatchesGenerated(t *testing.T) {
	for _, v := range []struct {
		name string
		fd   protoreflect.FileDescriptor
		gopk string
	}{{"v3", pb.File_api_proto, "deps.dev/api/v3"}, {"v3alpha", pba.File_api_proto, "deps.dev/api/v3alpha"}} {
		check := "proto-source-vs-generated/" + v.name
		rec.SetCheck(check)
		src, err := os.ReadFile(root() + "/api/" + v.name + "/api.proto")
		if err != nil {
			t.Fatalf("reading source: %v", err)
		}
		pf, err := parseProto(string(src))
		if err != nil {
			rec.Violation(check, elemCase{check, "api.proto", "", ""}, "source does not parse: "+err.Error(), "parses")
			t.Errorf("parse %s: %v", v.name, err)
			continue
		}
		s := describeSource(pf)
		g := describe(v.fd)
		s["file:package"], g["file:package"] = pf.Package, string(v.fd.Package())
		s["file:syntax"], g["file:syntax"] = pf.Syntax, v.fd.Syntax().String()
		s["file:go_package"] = pf.Options["go_package"]
		if fo, ok := v.fd.Options().(interface{ GetGoPackage() string }); ok {
			g["file:go_package"] = fo.GetGoPackage()
		}
		imps := append([]string(nil), pf.Imports...)
		sort.Strings(imps)
		s["file:imports"] = strings.Join(imps, ",")
		var gimps []string
		for i := 0; i < v.fd.Imports().Len(); i++ {
			gimps = append(gimps, v.fd.Imports().Get(i).Path())
		}
		sort.Strings(gimps)
		g["file:imports"] = strings.Join(gimps, ",")
		keys := map[string]bool{}
		for k := range s {
			keys[k] = true
		}
		for k := range g {
			keys[k] = true
		}
		var ks []string
		for k := range keys {
			ks = append(ks, k)
		}
		sort.Strings(ks)
		for i, k := range ks {
			rec.Eval(1)
			rec.NonTrivial(v.name + "|" + k)
			sv, sok := s[k]
			gv, gok := g[k]
			c := elemCase{check, k, sv, gv}
			if i%60 == 7 && rec.WantSample() {
				rec.Sample(c)
			}
			switch {
			case !sok:
				report(t, check, c, "in the generated descriptor but not in the .proto source", "same declarations")
			case !gok:
				report(t, check, c, "in the .proto source but not in the generated descriptor", "same declarations")
			case sv != gv:
				report(t, check, c, fmt.Sprintf("source: %s; generated: %s", sv, gv), "identical")
			}
		}
	}
}

var fullMethodRE = regexp.MustCompile(`(\w+)_FullMethodName\s*=\s*"([^"]+)"`)

// Oracle 2b: api_grpc.pb.go agrees with the service descriptor.
func TestGRPCBindings(t *testing.T) {
	for _, v := range []struct {
		name string
		fd   protoreflect.FileDescriptor
		sd   grpc.ServiceDesc
	}{{"v3", pb.File_api_proto, pb.Insights_ServiceDesc}, {"v3alpha", pba.File_api_proto, pba.Insights_ServiceDesc}} {
		check := "grpc-bindings/" + v.name
		rec.SetCheck(check)
		svc := v.fd.Services().Get(0)
		want := map[string]bool{}
		for j := 0; j < svc.Methods().Len(); j++ {
			want["/"+string(svc.FullName())+"/"+string(svc.Methods().Get(j).Name())] = true
		}
		got := map[string]bool{}
		for _, m := range v.sd.Methods {
			got["/"+v.sd.ServiceName+"/"+m.MethodName] = true
		}
		for _, s := range v.sd.Streams {
			got["/"+v.sd.ServiceName+"/"+s.StreamName] = true
		}
		src, err := os.ReadFile(root() + "/api/" + v.name + "/api_grpc.pb.go")
		if err != nil {
			t.Fatal(err)
		}
		consts := map[string]bool{}
		for _, m := range fullMethodRE.FindAllStringSubmatch(string(src), -1) {
			consts[m[2]] = true
		}
		all := map[string]bool{}
		for k := range want {
			all[k] = true
		}
		for k := range got {
			all[k] = true
		}
		for k := range consts {
			all[k] = true
		}
		var ks []string
		for k := range all {
			ks = append(ks, k)
		}
		sort.Strings(ks)
		for _, k := range ks {
			rec.Eval(1)
			rec.NonTrivial(v.name + "|grpc|" + k)
			c := elemCase{check, k, fmt.Sprintf("descriptor=%v", want[k]), fmt.Sprintf("ServiceDesc=%v const=%v", got[k], consts[k])}
			if !(want[k] && got[k] && consts[k]) {
				report(t, check, c, fmt.Sprintf("method %s: in service descriptor=%v, in ServiceDesc=%v, FullMethodName constant=%v", k, want[k], got[k], consts[k]), "present in all three")
			}
		}
		if v.sd.Metadata != "api.proto" {
			report(t, check, elemCase{check, "metadata", "", fmt.Sprint(v.sd.Metadata)}, "ServiceDesc.Metadata is not api.proto", "api.proto")
		}
	}
}

// Oracle 5: the generated Go structs are bound to the descriptor the way the
// generator binds them: a struct field tagged with field number N and proto
// name X is the Go spelling of X, X is field N of the message, and a value
// written through the Go field is what reflection reads for X (and back).
func goCamelCase(s string) string {
	var b []byte
	for i := 0; i < len(s); i++ {
		c := s[i]
		switch {
		case c == '.' && i+1 < len(s) && s[i+1] >= 'a' && s[i+1] <= 'z':
			// skip
		case c == '.':
			b = append(b, '_')
		case c == '_' && (i == 0 || s[i-1] == '.'):
			b = append(b, 'X')
		case c == '_' && i+1 < len(s) && s[i+1] >= 'a' && s[i+1] <= 'z':
			// skip
		case c >= '0' && c <= '9':
			b = append(b, c)
		default:
			if c >= 'a' && c <= 'z' {
				c -= 'a' - 'A'
			}
			b = append(b, c)
			for ; i+1 < len(s) && s[i+1] >= 'a' && s[i+1] <= 'z'; i++ {
				b = append(b, s[i+1])
			}
		}
	}
	return string(b)
}

var tagRE = regexp.MustCompile(`^[a-z0-9]+,([0-9]+),[a-z]+,name=([A-Za-z0-9_]+)`)

func TestGoStructBinding(t *testing.T) {
	for _, v := range []struct {
		name string
		fd   protoreflect.FileDescriptor
	}{{"v3", pb.File_api_proto}, {"v3alpha", pba.File_api_proto}} {
		check := "go-struct-binding/" + v.name
		rec.SetCheck(check)
		var walk func(ms protoreflect.MessageDescriptors)
		walk = func(ms protoreflect.MessageDescriptors) {
			for i := 0; i < ms.Len(); i++ {
				md := ms.Get(i)
				walk(md.Messages())
				if md.IsMapEntry() {
					continue
				}
				mt, err := protoregistry.GlobalTypes.FindMessageByName(md.FullName())
				if err != nil {
					report(t, check, elemCase{check, string(md.FullName()), "", ""}, "no Go type registered for the message", "registered")
					continue
				}
				msg := mt.New()
				rv := reflect.ValueOf(msg.Interface()).Elem()
				rt := rv.Type()
				for j := 0; j < rt.NumField(); j++ {
					sf := rt.Field(j)
					tag, ok := sf.Tag.Lookup("protobuf")
					if !ok {
						continue
					}
					m := tagRE.FindStringSubmatch(tag)
					if m == nil {
						continue
					}
					path := string(md.FullName()) + "." + sf.Name
					rec.Eval(1)
					rec.NonTrivial(v.name + "|gostruct|" + path)
					num, _ := strconv.Atoi(m[1])
					fd := md.Fields().ByName(protoreflect.Name(m[2]))
					c := elemCase{check, path, tag, ""}
					if fd == nil || int(fd.Number()) != num {
						report(t, check, c, fmt.Sprintf("Go field %s is tagged %q; the message has no field %s with number %d", sf.Name, tag, m[2], num), "tag names a field of the message with that number")
						continue
					}
					if want := goCamelCase(m[2]); want != sf.Name {
						report(t, check, c, fmt.Sprintf("Go field %s is tagged with proto field %s, whose Go name is %s", sf.Name, m[2], want), "the Go field carries the tag of its own proto field")
						continue
					}
					// a scalar written through the Go field is read by reflection under that name
					switch sf.Type.Kind() {
					case reflect.Bool:
						rv.Field(j).SetBool(true)
						if !msg.Get(fd).Bool() {
							report(t, check, c, fmt.Sprintf("true written to Go field %s is not read back as %s through the descriptor", sf.Name, m[2]), "same storage")
						}
						rv.Field(j).SetBool(false)
					case reflect.String:
						rv.Field(j).SetString("probe-" + sf.Name)
						if fd.Kind() == protoreflect.StringKind && msg.Get(fd).String() != "probe-"+sf.Name {
							report(t, check, c, fmt.Sprintf("a string written to Go field %s is not read back as %s through the descriptor", sf.Name, m[2]), "same storage")
						}
						rv.Field(j).SetString("")
					case reflect.Int32, reflect.Int64:
						rv.Field(j).SetInt(7)
						if k := fd.Kind(); (k == protoreflect.Int32Kind || k == protoreflect.Int64Kind || k == protoreflect.Sint32Kind || k == protoreflect.Sint64Kind) && msg.Get(fd).Int() != 7 {
							report(t, check, c, fmt.Sprintf("7 written to Go field %s is not read back as %s through the descriptor", sf.Name, m[2]), "same storage")
						}
						rv.Field(j).SetInt(0)
					}
				}
			}
		}
		walk(v.fd.Messages())
	}
}

// Oracle 4: the resolver's system identifiers equal the API's enum numbers.
func TestSystemNumbers(t *testing.T) {
	rec.SetCheck("system-identifiers")
	for _, p := range []struct {
		name string
		got  resolve.System
		want pb.System
	}{{"UnknownSystem", resolve.UnknownSystem, pb.System_SYSTEM_UNSPECIFIED}, {"NPM", resolve.NPM, pb.System_NPM}, {"Maven", resolve.Maven, pb.System_MAVEN}, {"PyPI", resolve.PyPI, pb.System_PYPI}} {
		rec.Eval(1)
		rec.NonTrivial("sys|" + p.name)
		if int(p.got) != int(p.want) {
			report(t, "system-identifiers", elemCase{"system-identifiers", p.name, fmt.Sprint(int(p.got)), fmt.Sprint(int(p.want))}, fmt.Sprintf("resolve.%s = %d; API enum = %d", p.name, p.got, p.want), "equal")
		}
		// and the same number in v3alpha under the same name
		va := pba.System_value[pb.System_name[int32(p.want)]]
		if va != int32(p.want) {
			report(t, "system-identifiers", elemCase{"system-identifiers", p.name, fmt.Sprint(va), fmt.Sprint(int(p.want))}, "v3alpha System number differs", "equal")
		}
	}
}

// ---- Oracle 3: wire round trip v3 -> v3alpha ---------------------------------------

func allMessages(fd protoreflect.FileDescriptor) []protoreflect.MessageDescriptor {
	var out []protoreflect.MessageDescriptor
	var walk func(ms protoreflect.MessageDescriptors)
	walk = func(ms protoreflect.MessageDescriptors) {
		for i := 0; i < ms.Len(); i++ {
			m := ms.Get(i)
			if m.IsMapEntry() {
				continue
			}
			out = append(out, m)
			walk(m.Messages())
		}
	}
	walk(fd.Messages())
	return out
}

func fill(t *rapid.T, m protoreflect.Message, depth int, populated *int) {
	fs := m.Descriptor().Fields()
	for i := 0; i < fs.Len(); i++ {
		f := fs.Get(i)
		if rapid.IntRange(0, 9).Draw(t, "set") < 4 {
			continue
		}
		if f.ContainingOneof() != nil && m.WhichOneof(f.ContainingOneof()) != nil {
			continue
		}
		one := func() (protoreflect.Value, bool) {
			switch f.Kind() {
			case protoreflect.StringKind:
				return protoreflect.ValueOfString(rapid.SampledFrom([]string{"", "a", "npm", "@s/n", "ünï", "1.0.0"}).Draw(t, "s")), true
			case protoreflect.BytesKind:
				return protoreflect.ValueOfBytes(rapid.SliceOfN(rapid.Byte(), 0, 4).Draw(t, "b")), true
			case protoreflect.BoolKind:
				return protoreflect.ValueOfBool(rapid.Bool().Draw(t, "bool")), true
			case protoreflect.Int32Kind, protoreflect.Sint32Kind, protoreflect.Sfixed32Kind:
				return protoreflect.ValueOfInt32(rapid.Int32().Draw(t, "i32")), true
			case protoreflect.Int64Kind, protoreflect.Sint64Kind, protoreflect.Sfixed64Kind:
				return protoreflect.ValueOfInt64(rapid.Int64().Draw(t, "i64")), true
			case protoreflect.Uint32Kind, protoreflect.Fixed32Kind:
				return protoreflect.ValueOfUint32(rapid.Uint32().Draw(t, "u32")), true
			case protoreflect.Uint64Kind, protoreflect.Fixed64Kind:
				return protoreflect.ValueOfUint64(rapid.Uint64().Draw(t, "u64")), true
			case protoreflect.FloatKind:
				return protoreflect.ValueOfFloat32(float32(rapid.IntRange(-5, 5).Draw(t, "f32")) / 2), true
			case protoreflect.DoubleKind:
				return protoreflect.ValueOfFloat64(float64(rapid.IntRange(-50, 50).Draw(t, "f64")) / 4), true
			case protoreflect.EnumKind:
				vs := f.Enum().Values()
				return protoreflect.ValueOfEnum(vs.Get(rapid.IntRange(0, vs.Len()-1).Draw(t, "e")).Number()), true
			case protoreflect.MessageKind:
				if depth <= 0 {
					return protoreflect.Value{}, false
				}
				var sub protoreflect.Message
				if f.Message().FullName() == "google.protobuf.Timestamp" {
					sub = timestamppb.New(timestampOf(rapid.IntRange(0, 2000000000).Draw(t, "ts"))).ProtoReflect()
					return protoreflect.ValueOfMessage(sub), true
				}
				if f.IsList() {
					sub = m.NewField(f).List().NewElement().Message()
				} else {
					sub = m.NewField(f).Message()
				}
				fill(t, sub, depth-1, populated)
				return protoreflect.ValueOfMessage(sub), true
			}
			return protoreflect.Value{}, false
		}
		switch {
		case f.IsMap():
			continue
		case f.IsList():
			l := m.Mutable(f).List()
			n := rapid.IntRange(0, 2).Draw(t, "n")
			for k := 0; k < n; k++ {
				if v, ok := one(); ok {
					l.Append(v)
					*populated++
				}
			}
		default:
			if v, ok := one(); ok {
				m.Set(f, v)
				*populated++
			}
		}
	}
}

func hasUnknown(m protoreflect.Message) bool {
	if len(m.GetUnknown()) > 0 {
		return true
	}
	bad := false
	m.Range(func(f protoreflect.FieldDescriptor, v protoreflect.Value) bool {
		switch {
		case f.IsMap():
		case f.IsList() && f.Message() != nil:
			for i := 0; i < v.List().Len(); i++ {
				if hasUnknown(v.List().Get(i).Message()) {
					bad = true
				}
			}
		case f.Message() != nil:
			if hasUnknown(v.Message()) {
				bad = true
			}
		}
		return !bad
	})
	return bad
}

type wireCase struct {
	Message string `json:"message"`
	JSON    string `json:"json"`
}

func wireProp(t *rapid.T) {
	ms := allMessages(pb.File_api_proto)
	md := ms[rapid.IntRange(0, len(ms)-1).Draw(t, "msg")]
	mt, err := protoregistry.GlobalTypes.FindMessageByName(md.FullName())
	if err != nil {
		t.Fatalf("generated type for %s not registered: %v", md.FullName(), err)
	}
	msg := mt.New()
	populated := 0
	fill(t, msg, 3, &populated)
	det := proto.MarshalOptions{Deterministic: true}
	b, err := det.Marshal(msg.Interface())
	if err != nil {
		t.Fatalf("marshal: %v", err)
	}
	js, _ := protojson.Marshal(msg.Interface())
	c := wireCase{string(md.FullName()), string(js)}
	rec.SetCase(c)
	rec.Eval(1)
	if populated >= 3 {
		rec.NonTrivial(string(md.FullName()) + "|" + string(b))
		if len(js) < 400 && rec.WantSample() {
			rec.Sample(c)
		}
	}
	alphaName := protoreflect.FullName("deps_dev.v3alpha." + strings.TrimPrefix(string(md.FullName()), "deps_dev.v3."))
	at, err := protoregistry.GlobalTypes.FindMessageByName(alphaName)
	if err != nil {
		rec.Fail(t, c, fmt.Sprintf("v3alpha has no generated message %s", alphaName), "same message exists in v3alpha")
		return
	}
	am := at.New()
	if err := proto.Unmarshal(b, am.Interface()); err != nil {
		rec.Fail(t, c, fmt.Sprintf("v3alpha %s cannot read v3 bytes: %v", alphaName, err), "readable")
	}
	if hasUnknown(am) {
		rec.Fail(t, c, fmt.Sprintf("v3alpha %s sees unknown fields in bytes written by v3", alphaName), "no unknown fields")
	}
	b2, _ := det.Marshal(am.Interface())
	if string(b2) != string(b) {
		rec.Fail(t, c, "re-marshalled v3alpha bytes differ from the v3 bytes", "identical")
	}
	js2, _ := protojson.Marshal(am.Interface())
	var j1, j2 any
	json.Unmarshal(js, &j1)
	json.Unmarshal(js2, &j2)
	s1, _ := json.Marshal(j1)
	s2, _ := json.Marshal(j2)
	if string(s1) != string(s2) {
		rec.Fail(t, c, fmt.Sprintf("JSON differs: v3 %s; v3alpha %s", s1, s2), "identical JSON")
	}
}

func TestWireRoundTrip(t *testing.T) {
	rec.Check(t, "wire-roundtrip", ev.N(6000, 400000), wireProp)
}

func TestCorpus(t *testing.T) { rec.SetCheck("corpus") }

func TestReplay(t *testing.T) {
	if ev.ReplayFile() == "" {
		t.Skip("no replay file")
	}
	// The enumerated obligations are functions of the tree alone: re-run them.
	TestSubset(t)
	TestSourceMatchesGenerated(t)
	TestGRPCBindings(t)
	TestSystemNumbers(t)
	TestGoStructBinding(t)
	TestGoEnumConstants(t)
}
