package c17

import (
	"fmt"
	"go/ast"
	"go/parser"
	"go/token"
	"strconv"
	"testing"

	pb "deps.dev/api/v3"
	pba "deps.dev/api/v3alpha"
	"google.golang.org/protobuf/reflect/protoreflect"
	"google.golang.org/protobuf/reflect/protoregistry"
)

// The Go constants of an enum are not reachable through the descriptor or the
// registry: they are read from the committed api.pb.go and compared with the
// enum values of the embedded descriptor (name, Go type, number), both ways.
func TestGoEnumConstants(t *testing.T) {
	for _, v := range []struct {
		name, dir string
		fd        protoreflect.FileDescriptor
	}{{"v3", "api/v3", pb.File_api_proto}, {"v3alpha", "api/v3alpha", pba.File_api_proto}} {
		check := "go-enum-constants/" + v.name
		rec.SetCheck(check)
		// expected: constant name -> (Go type, number)
		type want struct {
			typ string
			num int64
		}
		expected := map[string]want{}
		var walkEnums func(prefix string, es protoreflect.EnumDescriptors)
		walkEnums = func(prefix string, es protoreflect.EnumDescriptors) {
			for i := 0; i < es.Len(); i++ {
				ed := es.Get(i)
				// a Go enum value describes itself as its own enum: the generated
				// Descriptor/String methods are bound to one entry of the file's enum
				// table by index
				rec.Eval(1)
				rec.NonTrivial(v.name + "|goenumself|" + string(ed.FullName()))
				if et, err := protoregistry.GlobalTypes.FindEnumByName(ed.FullName()); err != nil {
					report(t, check, elemCase{check, string(ed.FullName()), "", ""}, "no Go type registered for the enum", "registered")
				} else {
					for j := 0; j < ed.Values().Len(); j++ {
						vd := ed.Values().Get(j)
						val := et.New(vd.Number())
						c := elemCase{check, string(ed.FullName()) + "." + string(vd.Name()), "", ""}
						if got := val.Descriptor().FullName(); got != ed.FullName() {
							report(t, check, c, fmt.Sprintf("the Go value of %s describes itself as %s", ed.FullName(), got), "its own enum")
							break
						}
						if got := fmt.Sprint(val); got != string(vd.Name()) {
							report(t, check, c, fmt.Sprintf("the Go value %d of %s prints as %q", vd.Number(), ed.FullName(), got), "the name of the enum value")
							break
						}
					}
				}
				typ := string(ed.Name())
				scope := typ
				if prefix != "" {
					typ = prefix + "_" + typ
					scope = prefix
				}
				for j := 0; j < ed.Values().Len(); j++ {
					vd := ed.Values().Get(j)
					expected[scope+"_"+string(vd.Name())] = want{typ, int64(vd.Number())}
				}
			}
		}
		var walkMsgs func(prefix string, ms protoreflect.MessageDescriptors)
		walkMsgs = func(prefix string, ms protoreflect.MessageDescriptors) {
			for i := 0; i < ms.Len(); i++ {
				md := ms.Get(i)
				p := string(md.Name())
				if prefix != "" {
					p = prefix + "_" + p
				}
				walkEnums(p, md.Enums())
				walkMsgs(p, md.Messages())
			}
		}
		walkEnums("", v.fd.Enums())
		walkMsgs("", v.fd.Messages())

		path := root() + "/" + v.dir + "/api.pb.go"
		f, err := parser.ParseFile(token.NewFileSet(), path, nil, 0)
		if err != nil {
			t.Fatalf("harness: cannot parse %s: %v", path, err)
		}
		seen := map[string]bool{}
		for _, d := range f.Decls {
			gd, ok := d.(*ast.GenDecl)
			if !ok || gd.Tok != token.CONST {
				continue
			}
			for _, sp := range gd.Specs {
				vs := sp.(*ast.ValueSpec)
				typ, _ := vs.Type.(*ast.Ident)
				for i, n := range vs.Names {
					w, isEnumConst := expected[n.Name]
					if !isEnumConst {
						continue
					}
					seen[n.Name] = true
					rec.Eval(1)
					rec.NonTrivial(v.name + "|goconst|" + n.Name)
					c := elemCase{check, n.Name, "", ""}
					if typ == nil || typ.Name != w.typ {
						report(t, check, c, fmt.Sprintf("constant %s is declared with type %v; the enum's Go type is %s", n.Name, vs.Type, w.typ), "declared with its enum's type")
						continue
					}
					if i >= len(vs.Values) {
						report(t, check, c, fmt.Sprintf("constant %s has no explicit value", n.Name), "explicit number as generated")
						continue
					}
					lit, ok := vs.Values[i].(*ast.BasicLit)
					num, perr := int64(0), error(nil)
					if ok {
						num, perr = strconv.ParseInt(lit.Value, 0, 64)
					}
					if !ok || perr != nil || num != w.num {
						report(t, check, c, fmt.Sprintf("Go constant %s has another value than the enum value it is named after (number %d in the descriptor)", n.Name, w.num), "equal numbers")
					}
				}
			}
		}
		for name := range expected {
			if !seen[name] {
				rec.Eval(1)
				report(t, check, elemCase{check, name, "", ""}, "the enum value has no Go constant "+name, "one constant per enum value")
			}
		}
	}
}
