package c17

import (
	"fmt"
	"strconv"
	"strings"
	"unicode"
)

// A small proto3 parser for the subset the two api.proto files use (there is
// no protoc in the sandbox): syntax, package, import, file options, services
// with rpc methods and their google.api.http option, messages with fields
// (repeated/optional, map<,>, oneof), nested messages and enums.

type pField struct {
	Name     string
	Number   int
	Type     string // as written (scalar name or possibly qualified type name)
	Repeated bool
	Optional bool
	Oneof    string
	MapKey   string // non-empty for map fields
	MapVal   string
}

type pEnumValue struct {
	Name   string
	Number int
}

type pEnum struct {
	Name   string // relative to the package, dotted
	Values []pEnumValue
}

type pMessage struct {
	Name   string // relative to the package, dotted
	Fields []pField
}

type pMethod struct {
	Name, In, Out     string
	ClientStream      bool
	ServerStream      bool
	HTTPVerb, HTTPURL string
	HTTPBody          string
}

type pService struct {
	Name    string
	Methods []pMethod
}

type pFile struct {
	Syntax   string
	Package  string
	Imports  []string
	Options  map[string]string
	Messages []pMessage
	Enums    []pEnum
	Services []pService
}

type tok struct {
	kind string // ident, int, string, sym
	text string
	line int
}

func lexProto(src string) ([]tok, error) {
	var toks []tok
	line := 1
	i := 0
	for i < len(src) {
		c := src[i]
		switch {
		case c == '\n':
			line++
			i++
		case c == ' ' || c == '\t' || c == '\r':
			i++
		case strings.HasPrefix(src[i:], "//"):
			for i < len(src) && src[i] != '\n' {
				i++
			}
		case strings.HasPrefix(src[i:], "/*"):
			j := strings.Index(src[i+2:], "*/")
			if j < 0 {
				return nil, fmt.Errorf("line %d: unterminated comment", line)
			}
			line += strings.Count(src[i:i+2+j+2], "\n")
			i += 2 + j + 2
		case c == '"' || c == '\'':
			j := i + 1
			var sb strings.Builder
			for j < len(src) && src[j] != c {
				if src[j] == '\\' && j+1 < len(src) {
					j++
				}
				sb.WriteByte(src[j])
				j++
			}
			if j >= len(src) {
				return nil, fmt.Errorf("line %d: unterminated string", line)
			}
			toks = append(toks, tok{"string", sb.String(), line})
			i = j + 1
		case unicode.IsDigit(rune(c)) || (c == '-' && i+1 < len(src) && unicode.IsDigit(rune(src[i+1]))):
			j := i + 1
			for j < len(src) && (unicode.IsDigit(rune(src[j])) || src[j] == 'x' || (src[j] >= 'a' && src[j] <= 'f') || (src[j] >= 'A' && src[j] <= 'F')) {
				j++
			}
			toks = append(toks, tok{"int", src[i:j], line})
			i = j
		case unicode.IsLetter(rune(c)) || c == '_':
			j := i + 1
			for j < len(src) && (unicode.IsLetter(rune(src[j])) || unicode.IsDigit(rune(src[j])) || src[j] == '_' || src[j] == '.') {
				j++
			}
			toks = append(toks, tok{"ident", src[i:j], line})
			i = j
		default:
			toks = append(toks, tok{"sym", string(c), line})
			i++
		}
	}
	return toks, nil
}

type pparser struct {
	toks []tok
	pos  int
	f    *pFile
}

func (p *pparser) peek() tok {
	if p.pos < len(p.toks) {
		return p.toks[p.pos]
	}
	return tok{"eof", "", -1}
}

func (p *pparser) next() tok {
	t := p.peek()
	p.pos++
	return t
}

func (p *pparser) expect(text string) error {
	t := p.next()
	if t.text != text {
		return fmt.Errorf("line %d: expected %q, got %q", t.line, text, t.text)
	}
	return nil
}

func parseProto(src string) (*pFile, error) {
	toks, err := lexProto(src)
	if err != nil {
		return nil, err
	}
	p := &pparser{toks: toks, f: &pFile{Options: map[string]string{}}}
	for p.peek().kind != "eof" {
		t := p.next()
		switch t.text {
		case "syntax":
			p.expect("=")
			p.f.Syntax = p.next().text
			p.expect(";")
		case "package":
			p.f.Package = p.next().text
			p.expect(";")
		case "import":
			n := p.next()
			if n.text == "public" || n.text == "weak" {
				n = p.next()
			}
			p.f.Imports = append(p.f.Imports, n.text)
			p.expect(";")
		case "option":
			name := p.next().text
			p.expect("=")
			p.f.Options[name] = p.next().text
			p.expect(";")
		case "message":
			if err := p.message(""); err != nil {
				return nil, err
			}
		case "enum":
			if err := p.enum(""); err != nil {
				return nil, err
			}
		case "service":
			if err := p.service(); err != nil {
				return nil, err
			}
		case ";":
		default:
			return nil, fmt.Errorf("line %d: unexpected %q at top level", t.line, t.text)
		}
	}
	return p.f, nil
}

func (p *pparser) enum(prefix string) error {
	name := p.next().text
	e := pEnum{Name: prefix + name}
	if err := p.expect("{"); err != nil {
		return err
	}
	for p.peek().text != "}" {
		t := p.next()
		if t.kind == "eof" {
			return fmt.Errorf("unterminated enum %s", e.Name)
		}
		if t.text == "option" || t.text == "reserved" {
			for p.next().text != ";" {
			}
			continue
		}
		if err := p.expect("="); err != nil {
			return err
		}
		n, err := strconv.Atoi(p.next().text)
		if err != nil {
			return fmt.Errorf("enum %s: bad number", e.Name)
		}
		if p.peek().text == "[" {
			for p.next().text != "]" {
			}
		}
		if err := p.expect(";"); err != nil {
			return err
		}
		e.Values = append(e.Values, pEnumValue{t.text, n})
	}
	p.next()
	p.f.Enums = append(p.f.Enums, e)
	return nil
}

func (p *pparser) message(prefix string) error {
	name := p.next().text
	m := pMessage{Name: prefix + name}
	idx := len(p.f.Messages)
	p.f.Messages = append(p.f.Messages, m)
	if err := p.expect("{"); err != nil {
		return err
	}
	var fields []pField
	var body func(oneof string) error
	body = func(oneof string) error {
		for p.peek().text != "}" {
			t := p.next()
			switch {
			case t.kind == "eof":
				return fmt.Errorf("unterminated message %s", m.Name)
			case t.text == "message":
				if err := p.message(m.Name + "."); err != nil {
					return err
				}
			case t.text == "enum":
				if err := p.enum(m.Name + "."); err != nil {
					return err
				}
			case t.text == "oneof":
				on := p.next().text
				if err := p.expect("{"); err != nil {
					return err
				}
				if err := body(on); err != nil {
					return err
				}
				p.next() // }
			case t.text == "option" || t.text == "reserved" || t.text == "extensions":
				for p.next().text != ";" {
				}
			case t.text == ";":
			default:
				f := pField{Oneof: oneof}
				typ := t.text
				if typ == "repeated" {
					f.Repeated = true
					typ = p.next().text
				} else if typ == "optional" {
					f.Optional = true
					typ = p.next().text
				}
				if typ == "map" {
					p.expect("<")
					f.MapKey = p.next().text
					p.expect(",")
					f.MapVal = p.next().text
					p.expect(">")
					f.Repeated = true
				}
				f.Type = typ
				f.Name = p.next().text
				if err := p.expect("="); err != nil {
					return err
				}
				n, err := strconv.Atoi(p.next().text)
				if err != nil {
					return fmt.Errorf("message %s field %s: bad number", m.Name, f.Name)
				}
				f.Number = n
				if p.peek().text == "[" {
					for p.next().text != "]" {
					}
				}
				if err := p.expect(";"); err != nil {
					return err
				}
				fields = append(fields, f)
			}
		}
		return nil
	}
	if err := body(""); err != nil {
		return err
	}
	p.next()
	p.f.Messages[idx].Fields = fields
	return nil
}

func (p *pparser) service() error {
	s := pService{Name: p.next().text}
	if err := p.expect("{"); err != nil {
		return err
	}
	for p.peek().text != "}" {
		t := p.next()
		if t.kind == "eof" {
			return fmt.Errorf("unterminated service")
		}
		if t.text == "option" {
			for p.next().text != ";" {
			}
			continue
		}
		if t.text != "rpc" {
			return fmt.Errorf("line %d: expected rpc, got %q", t.line, t.text)
		}
		m := pMethod{Name: p.next().text}
		p.expect("(")
		if p.peek().text == "stream" {
			m.ClientStream = true
			p.next()
		}
		m.In = p.next().text
		p.expect(")")
		p.expect("returns")
		p.expect("(")
		if p.peek().text == "stream" {
			m.ServerStream = true
			p.next()
		}
		m.Out = p.next().text
		p.expect(")")
		if p.peek().text == ";" {
			p.next()
		} else {
			p.expect("{")
			for p.peek().text != "}" {
				o := p.next()
				if o.kind == "eof" {
					return fmt.Errorf("unterminated rpc")
				}
				if o.text != "option" {
					continue
				}
				p.expect("(")
				oname := p.next().text
				p.expect(")")
				p.expect("=")
				p.expect("{")
				for p.peek().text != "}" {
					k := p.next().text
					if p.peek().text == ":" {
						p.next()
					}
					v := p.next().text
					if oname == "google.api.http" {
						switch k {
						case "get", "post", "put", "delete", "patch":
							m.HTTPVerb, m.HTTPURL = k, v
						case "body":
							m.HTTPBody = v
						}
					}
				}
				p.next()
				if p.peek().text == ";" {
					p.next()
				}
			}
			p.next()
		}
		s.Methods = append(s.Methods, m)
	}
	p.next()
	p.f.Services = append(p.f.Services, s)
	return nil
}
