package c17

import "time"

func timestampOf(sec int) time.Time { return time.Unix(int64(sec), 0).UTC() }
