// C03 — constraint matching agrees with each ecosystem's own implementation.
package c03

import (
	"encoding/json"
	"fmt"
	"os"
	"regexp"
	"sort"
	"strconv"
	"strings"
	"testing"

	"deps.dev/util/resolve"
	"deps.dev/util/resolve/verifh/internal/ev"
	"deps.dev/util/resolve/verifh/internal/gen"
	"deps.dev/util/resolve/verifh/internal/known"
	"deps.dev/util/resolve/verifh/internal/oracle"
	"deps.dev/util/semver"
	"pgregory.net/rapid"
)

var rec = ev.New("C03")
var kf *known.File
var servers []*oracle.Server

func TestMain(m *testing.M) {
	kf, _ = known.Load(ev.KnownFile())
	rec.Rule("(requirement, candidate pool) per ecosystem: requirements from the ecosystem's range grammar, candidates derived from the requirement's own bounds (each literal, ±1 neighbours, prerelease/build variants) plus random versions; oracle = node-semver satisfies (7.x and 5.7.1, asserted where they agree), Rust VersionReq::matches, packaging SpecifierSet.contains (26.x and 21.3, asserted where they agree), Maven VersionRange.containsVersion; observed through Constraint.Match, MatchVersion and resolve.MatchRequirement; a requirement the reference accepts and shows non-empty on the pool must parse. One evaluation = one (requirement, candidate). Non-trivial: the requirement has >= 2 comparators or a desugaring operator, and the candidate is a bound or neighbour of a bound. Distinct = distinct (ecosystem, requirement, candidate). Operands include the literal 0.0.0-0, short-form prereleases, a number after a wildcard, build metadata containing x, and for PyPI upper-case and underscore spellings; three quick shards.")
	rec.Assume("PyPI candidates are final releases with a non-zero release segment; PyPI requirements carry no epoch/local; Maven candidates are >= 0 and use '-'-introduced qualifiers (Maven 3.8.7 skew), as the property and DESIGN §6.4 state")
	code := m.Run()
	for _, s := range servers {
		s.Close()
	}
	rec.Flush()
	os.Exit(code)
}

func start(t *testing.T, kind string) *oracle.Server {
	s, err := oracle.Start(kind)
	if err != nil {
		t.Logf("oracle %s unavailable: %v", kind, err)
		rec.Extra("oracle_unavailable_"+kind, true)
		return nil
	}
	servers = append(servers, s)
	rec.Extra("oracle_"+kind, s.Version)
	return s
}

type reqCase struct {
	Ecosystem string   `json:"ecosystem"`
	Req       string   `json:"req"`
	Pool      []string `json:"pool,omitempty"`
	V         string   `json:"v,omitempty"`
	Law       string   `json:"law,omitempty"`
}

// refMatch: status "ok" | "reject" | "drift" | "soft"; res[i] in {'1','0','x' (reference rejects the version), 'b' (out of domain)}.
type refMatch func(req string, pool []string) (status string, res string, err error)

type eco struct {
	name  string
	sys   semver.System
	rsys  resolve.System
	g     *rapid.Generator[string]
	style string
	ref   refMatch
	rv    *rapid.Generator[string]
}

func npmRef(s *oracle.Server) refMatch {
	return func(req string, pool []string) (string, string, error) {
		r7, r5, err := s.Ask2(append([]string{"satm", req}, pool...)...)
		if err != nil {
			return "", "", err
		}
		if r7 == "E" {
			return "reject", "", nil
		}
		if r5 != "-" && r5 != r7 {
			return "drift", "", nil
		}
		return "ok", r7, nil
	}
}

func batchRef(s *oracle.Server, op string) refMatch {
	return func(req string, pool []string) (string, string, error) {
		r, err := s.Ask(append([]string{op, req}, pool...)...)
		if err != nil {
			return "", "", err
		}
		if strings.HasPrefix(r, "E") {
			return "reject", "", nil
		}
		if r == "soft" {
			return "soft", "", nil
		}
		return "ok", r, nil
	}
}

func pyRef(newer, older *oracle.Server) refMatch {
	rn := batchRef(newer, "containsm")
	return func(req string, pool []string) (string, string, error) {
		st, res, err := rn(req, pool)
		if err != nil || older == nil {
			return st, res, err
		}
		st2, res2, err := batchRef(older, "containsm")(req, pool)
		if err != nil {
			return "", "", err
		}
		if st != st2 || res != res2 {
			return "drift", "", nil
		}
		return st, res, nil
	}
}

type failure struct {
	law, v, observed, expected string
}

var desugar = regexp.MustCompile(`[\^~*xX]| - |\|\||!=|\.\*`)

func multiComparator(req string) bool {
	return desugar.MatchString(req) || len(regexp.MustCompile(`[<>=]+\s*[0-9v]`).FindAllString(req, -1)) >= 2 || strings.Count(req, ",") >= 1
}

// evaluate compares library and reference on one requirement over the pool.
func evaluate(e *eco, req string, pool []string, onEval func(v string, refTrue bool)) (fails []failure, status string, err error) {
	if !oracle.Clean(req) || !oracle.Clean(pool...) || len(pool) == 0 {
		return nil, "unclean", nil
	}
	status, res, err := e.ref(req, pool)
	if err != nil {
		return nil, "", err
	}
	c, perr := e.sys.ParseConstraint(req)
	switch status {
	case "reject", "drift":
		return nil, "reference-" + status, nil
	case "soft":
		// A bare Maven version is a soft requirement that accepts everything.
		if perr != nil {
			return []failure{{"rejected-nonempty", "", fmt.Sprintf("reference reads %q as a soft requirement; ParseConstraint fails: %v", req, perr), "accepted"}}, "ok", nil
		}
		for _, vs := range pool {
			if _, err := e.sys.Parse(vs); err != nil {
				continue
			}
			if onEval != nil {
				onEval(vs, true)
			}
			if !c.Match(vs) {
				fails = append(fails, failure{"match", vs, fmt.Sprintf("soft requirement %q does not match %q", req, vs), "a soft requirement accepts everything"})
			}
		}
		return fails, "ok", nil
	}
	if len(res) != len(pool) {
		return nil, "", fmt.Errorf("oracle answered %q for %d candidates", res, len(pool))
	}
	if perr != nil {
		for i, vs := range pool {
			if res[i] == '1' {
				return []failure{{"rejected-nonempty", vs, fmt.Sprintf("reference accepts %q and it matches %q; ParseConstraint fails: %v", req, vs, perr), "accepted"}}, "ok", nil
			}
		}
		return nil, "library-rejects-(reference shows no witness of non-emptiness)", nil
	}
	var wantSet []string
	var concrete []resolve.Version
	for i, vs := range pool {
		if res[i] != '1' && res[i] != '0' {
			continue // reference rejects the version, or out of domain
		}
		pv, err := e.sys.Parse(vs)
		if err != nil || pv.IsWildcard() {
			continue
		}
		want := res[i] == '1'
		if onEval != nil {
			onEval(vs, want)
		}
		if got := c.Match(vs); got != want {
			fails = append(fails, failure{"match", vs, fmt.Sprintf("%q (set %s) Match(%q)=%v, reference %v", req, c.Set(), vs, got, want), fmt.Sprint(want)})
		}
		if got := c.MatchVersion(pv); got != c.Match(vs) {
			fails = append(fails, failure{"matchversion-consistent", vs, fmt.Sprintf("%q: MatchVersion(%q)=%v but Match=%v", req, vs, got, c.Match(vs)), "same"})
		}
		if want {
			wantSet = append(wantSet, vs)
		}
		concrete = append(concrete, resolve.Version{VersionKey: resolve.VersionKey{
			PackageKey: resolve.PackageKey{System: e.rsys, Name: "p"}, VersionType: resolve.Concrete, Version: vs}})
	}
	if e.rsys != resolve.UnknownSystem && len(fails) == 0 {
		got := resolve.MatchRequirement(resolve.VersionKey{
			PackageKey: resolve.PackageKey{System: e.rsys, Name: "p"}, VersionType: resolve.Requirement, Version: req}, concrete)
		var gotSet []string
		for _, v := range got {
			gotSet = append(gotSet, v.Version)
		}
		sort.Strings(gotSet)
		sort.Strings(wantSet)
		if strings.Join(gotSet, " ") != strings.Join(wantSet, " ") {
			fails = append(fails, failure{"matchrequirement", "", fmt.Sprintf("resolve.MatchRequirement(%q) returns %v; reference satisfiers %v", req, gotSet, wantSet), "same set"})
		}
	}
	return fails, "ok", nil
}

// Known-finding classes (active only while known_findings.txt lists them).
//
// NPMEmptyAlternative: node-semver reads an empty || alternative as "*"; the
// library rejects a leading, trailing or doubled "||" (pinned by
// TestNPMConstraintError rows "||", "1.0||").
//
// NPMHyphenUpperBelowLower: the library compares the bounds of "a - b" before
// completing the partial upper bound and rejects "0.4.0 - 0" (node: >=0.4.0
// <1.0.0-0), and rejects impossible ranges that node reads as empty (pinned by
// the TestNPMConstraintError row "0.3.0 - 0").
//
// CargoPrereleaseMultiComparator: the Rust crate decides prerelease
// eligibility per comparator ("=1", "1.*" and ">=2" never match a prerelease);
// the library intersects comparators into intervals first and keeps only the
// interval's end points.
//
// MavenOpenLowerBoundBelowZero: a range without a lower bound starts at "0",
// so "(,0-rc-2)" is rejected as max < min (the property records versions
// ordered below 0 as a finding for open lower bounds).
var emptyAltRE = regexp.MustCompile(`^\s*\|\||\|\|\s*$|\|\|\s*\|\|`)

// GreaterThanStepsOverPrerelease: ">X" is stored as the closed bound at the
// version after X (">1.2.3" is [1.2.4:...), so a prerelease of that next
// version (1.2.4-beta.1 > 1.2.3), which the reference admits when another
// comparator names a prerelease of the same numbers, falls below the bound.
var strictGreater = regexp.MustCompile(`>\s*v?([0-9]+)(?:\.([0-9]+))?(?:\.([0-9]+))?([-+0-9A-Za-z.]*)`)

func steppedOverPrerelease(req, v string) bool {
	num, _, isPre := strings.Cut(strings.TrimPrefix(v, "v"), "-")
	if !isPre {
		return false
	}
	if i := strings.IndexByte(num, '+'); i >= 0 {
		num = num[:i]
	}
	for _, m := range strictGreater.FindAllStringSubmatchIndex(req, -1) {
		sub := strictGreater.FindStringSubmatch(req[m[0]:])
		if strings.HasPrefix(req[m[0]+1:], "=") || strings.HasPrefix(sub[4], "-") {
			continue
		}
		a, _ := strconv.Atoi(sub[1])
		var next string
		switch {
		case sub[2] == "":
			next = fmt.Sprintf("%d.0.0", a+1)
		case sub[3] == "":
			b, _ := strconv.Atoi(sub[2])
			next = fmt.Sprintf("%d.%d.0", a, b+1)
		default:
			b, _ := strconv.Atoi(sub[2])
			c, _ := strconv.Atoi(sub[3])
			next = fmt.Sprintf("%d.%d.%d", a, b, c+1)
		}
		if next == num {
			return true
		}
	}
	return false
}

// lessThanZero: a comparator "<0", "<0.0" or "<0.0.0" is the empty set for the
// library (pinned by TestConstraintToSet, "<0"), so a prerelease of 0.0.0 that
// another comparator of the same requirement admits is refused.
var lessThanZeroRE = regexp.MustCompile(`<\s*v?0(\.0){0,2}(\+[0-9A-Za-z.-]*)?\s*(,|$|\|| [^-])`)

func lessThanZero(req, v string) bool {
	return strings.HasPrefix(strings.TrimPrefix(v, "v"), "0.0.0-") && lessThanZeroRE.MatchString(req)
}

// mergedAwayPrereleaseBound: two alternatives of a "||" requirement meet at a
// prerelease bound with the numbers of the candidate, and the printed set no
// longer has a bound with those numbers (the C09 finding
// union-merge-loses-prerelease-bound, seen through ParseConstraint).
func mergedAwayPrereleaseBound(req, v, observed string) bool {
	if !strings.Contains(req, "||") {
		return false
	}
	num, _, isPre := strings.Cut(strings.TrimPrefix(v, "v"), "-")
	if !isPre {
		return false
	}
	named := false
	for _, m := range regexp.MustCompile(`v?([0-9]+\.[0-9]+\.[0-9]+)-[0-9A-Za-z]`).FindAllStringSubmatch(req, -1) {
		if m[1] == num {
			named = true
		}
	}
	i, j := strings.Index(observed, "(set "), strings.Index(observed, ") Match(")
	if !named || i < 0 || j < i {
		return false
	}
	set := observed[i:j]
	return strings.Count(set, "[")+strings.Count(set, "(") < strings.Count(req, "||")+1+1 && !strings.Contains(set, num+"-")
}

func knownClass(e *eco, f failure, req string) string {
	if e.name == "npm" || e.name == "cargo" {
		if (f.law == "match" || f.law == "matchrequirement") && strings.Contains(f.expected, "true") && steppedOverPrerelease(req, f.v) && kf.Open("C03", "GreaterThanStepsOverPrerelease") {
			return "GreaterThanStepsOverPrerelease"
		}
		if f.law == "match" && f.expected == "true" && lessThanZero(req, f.v) && kf.Open("C03", "LessThanZeroIsEmpty") {
			return "LessThanZeroIsEmpty"
		}
	}
	switch e.name {
	case "npm":
		// MinVersionLiteralMergedIntoSpan: an alternative names the bound 0.0.0-0
		// and another one has no lower bound; canonicalisation merges them into one
		// span whose lower bound is either the user's 0.0.0-0, which then lets every
		// prerelease of 0.0.0 in, or the internal minimum, which lets none in.
		if f.law == "match" && strings.Contains(req, "||") && minLiteralC03.MatchString(req) && strings.HasPrefix(strings.TrimPrefix(f.v, "v"), "0.0.0-") && kf.Open("C03", "MinVersionLiteralMergedIntoSpan") {
			return "MinVersionLiteralMergedIntoSpan"
		}
		if f.law == "match" && f.expected == "true" && mergedAwayPrereleaseBound(req, f.v, f.observed) && kf.Open("C03", "UnionMergeLosesPrereleaseBound") {
			return "UnionMergeLosesPrereleaseBound"
		}
		if f.law == "rejected-nonempty" && emptyAltRE.MatchString(req) && kf.Open("C03", "NPMEmptyAlternative") {
			return "NPMEmptyAlternative"
		}
		if f.law == "rejected-nonempty" && strings.Contains(req, " - ") && (strings.Contains(f.observed, "impossible constraint: max greater than min") || strings.Contains(f.observed, "newSpan: max less than min")) && kf.Open("C03", "NPMHyphenUpperBelowLower") {
			return "NPMHyphenUpperBelowLower"
		}
	case "cargo":
		if (f.law == "match" || f.law == "matchrequirement") && strings.Contains(req, ",") && strings.Contains(f.v, "-") && cargoHasPartialComparator(req) && kf.Open("C03", "CargoPrereleaseMultiComparator") {
			return "CargoPrereleaseMultiComparator"
		}
	case "maven":
		if f.law == "rejected-nonempty" && mavenOpenLowerBelowZero.MatchString(req) && strings.Contains(f.observed, "max less than min") && kf.Open("C03", "MavenOpenLowerBoundBelowZero") {
			return "MavenOpenLowerBoundBelowZero"
		}
	}
	return ""
}

var minLiteralC03 = regexp.MustCompile(`(^|[^0-9.])v?0(\.0){0,2}-0($|[^0-9A-Za-z.-])`)

// cargoHasPartialComparator reports whether some comparator of a comma list
// is written with fewer than three components or a wildcard (or is an exact
// comparator without a prerelease): the crate evaluates such a comparator on
// the components it gives, so "1", "=1", "1.*" and ">0" accept or refuse a
// prerelease such as 1.0.0-0 regardless of where it sorts, while the library
// turns every comparator into an interval and intersects.
func cargoHasPartialComparator(req string) bool {
	for _, c := range strings.Split(req, ",") {
		c = strings.TrimLeft(strings.TrimSpace(c), "<>=^~ v")
		if c == "" {
			continue
		}
		core := c
		if i := strings.IndexAny(core, "-+"); i >= 0 {
			core = core[:i]
		}
		if strings.ContainsAny(core, "*xX") || strings.Count(core, ".") < 2 {
			return true
		}
		if strings.HasPrefix(strings.TrimSpace(strings.Split(req, ",")[0]), "=") && !strings.Contains(c, "-") {
			return true
		}
	}
	return false
}

var mavenOpenLowerBelowZero = regexp.MustCompile(`\(,0(\.0)*-(?i:alpha|beta|milestone|rc|cr|snapshot|a[0-9]|b[0-9]|m[0-9])`)

// C02 owns these ordering findings; candidates of those shapes are kept out
// of the Maven pool so that C03 reports matching, not ordering.
var mavenOrderingFindingShapes = regexp.MustCompile(`(?i)(ga|final|release)-snapshot|[a-z][-.]?0+-snapshot`)

// finalRelease: digits and dots only (the property's PyPI candidates are final
// releases; pre/dev/post/local/epoch candidates are outside its quantifier).
func finalRelease(v string) bool {
	for _, c := range v {
		if c != '.' && (c < '0' || c > '9') {
			return false
		}
	}
	return v != ""
}

func allZeroRelease(v string) bool {
	for _, c := range v {
		if c != '0' && c != '.' {
			return false
		}
	}
	return true
}

func prop(e *eco) func(*rapid.T) {
	return func(t *rapid.T) {
		req := e.g.Draw(t, "req")
		full := gen.BoundaryVersions(e.style, req)
		boundary := map[string]bool{}
		var pool []string
		for _, v := range full {
			if e.name == "pypi" && (allZeroRelease(v) || !finalRelease(v)) {
				continue
			}
			boundary[v] = true
			pool = append(pool, v)
		}
		n := rapid.IntRange(0, 3).Draw(t, "nrand")
		for i := 0; i < n; i++ {
			v := e.rv.Draw(t, "rv")
			if e.name == "pypi" && (allZeroRelease(v) || !finalRelease(v)) {
				continue
			}
			if e.name == "maven" && mavenOrderingFindingShapes.MatchString(v) {
				continue
			}
			pool = append(pool, v)
		}
		// Keep the batch bounded: sample when the pool is large.
		if len(pool) > 40 {
			idx := rapid.Permutation(seq(len(pool))).Draw(t, "sample")[:40]
			sort.Ints(idx)
			var p2 []string
			for _, i := range idx {
				p2 = append(p2, pool[i])
			}
			pool = p2
		}
		c := reqCase{Ecosystem: e.name, Req: req, Pool: pool}
		rec.SetCase(c)
		sampled := false
		multi := multiComparator(req)
		fails, status, err := evaluate(e, req, pool, func(v string, refTrue bool) {
			rec.Eval(1)
			if refTrue {
				rec.Class("reference-true")
			} else {
				rec.Class("reference-false")
			}
			if multi && boundary[v] {
				rec.NonTrivial(e.name + "|" + req + "|" + v)
				if !sampled && rec.WantSample() {
					sampled = true
					rec.Sample(map[string]any{"ecosystem": e.name, "req": req, "v": v, "reference": refTrue})
				}
			}
		})
		if err != nil {
			t.Fatalf("oracle failure: %v", err)
		}
		if status != "ok" {
			rec.ExcludedDomain(status)
			return
		}
		for _, f := range fails {
			if cl := knownClass(e, f, req); cl != "" {
				rec.ExcludedKnown(cl)
				continue
			}
			rec.Fail(t, reqCase{Ecosystem: e.name, Req: req, V: f.v, Law: f.law, Pool: pool}, f.observed, f.expected)
		}
	}
}

func seq(n int) []int {
	s := make([]int, n)
	for i := range s {
		s[i] = i
	}
	return s
}

var ecoCache []*eco

func ecosystems(t *testing.T) []*eco {
	if ecoCache != nil {
		return ecoCache
	}
	var out []*eco
	if s := start(t, "npm"); s != nil {
		out = append(out, &eco{"npm", semver.NPM, resolve.NPM, gen.NPMRange(), "semver", npmRef(s), gen.SemverLike(semver.NPM, gen.SemverOpts{Strict: true})})
	}
	if s := start(t, "rust"); s != nil {
		out = append(out, &eco{"cargo", semver.Cargo, resolve.UnknownSystem, gen.CargoReq(), "semver", batchRef(s, "matchesm"), gen.SemverLike(semver.Cargo, gen.SemverOpts{Strict: true})})
	}
	if s := start(t, "py"); s != nil {
		finals := rapid.Custom(func(t *rapid.T) string {
			n := rapid.IntRange(1, 4).Draw(t, "n")
			var parts []string
			for i := 0; i < n; i++ {
				parts = append(parts, rapid.SampledFrom([]string{"0", "1", "2", "3", "4", "10", "99"}).Draw(t, "c"))
			}
			return strings.Join(parts, ".")
		})
		out = append(out, &eco{"pypi", semver.PyPI, resolve.PyPI, gen.PyPISpecifier(), "pep440", pyRef(s, start(t, "pyold")), finals})
	}
	if s := start(t, "mvn"); s != nil {
		out = append(out, &eco{"maven", semver.Maven, resolve.Maven, gen.MavenRangeSpec(), "maven", batchRef(s, "containsm"), gen.Maven(gen.MavenOpts{Differential: true})})
	}
	ecoCache = out
	return out
}

func ecoByName(t *testing.T, name string) *eco {
	for _, e := range ecosystems(t) {
		if e.name == name {
			return e
		}
	}
	return nil
}

func TestCorpus(t *testing.T) {
	rec.SetCheck("corpus")
	for _, fd := range kf.For("C03") {
		var c reqCase
		if err := json.Unmarshal(fd.Witness, &c); err != nil {
			t.Fatalf("bad witness %s: %v", fd.ID, err)
		}
		e := ecoByName(t, c.Ecosystem)
		if e == nil {
			continue
		}
		pool := c.Pool
		if len(pool) == 0 {
			pool = []string{c.V}
		}
		fails, _, err := evaluate(e, c.Req, pool, nil)
		if err != nil {
			t.Fatal(err)
		}
		if len(fails) > 0 {
			rec.Known(fd.ID, fd.Text+" ["+fails[0].law+": "+fails[0].observed+"]")
		}
	}
}

func TestMatching(t *testing.T) {
	for _, e := range ecosystems(t) {
		rec.Check(t, "match/"+e.name, ev.N(8000, 600000), prop(e))
	}
}

func TestReplay(t *testing.T) {
	path := ev.ReplayFile()
	if path == "" {
		t.Skip("no replay file")
	}
	var c reqCase
	if _, err := ev.ReadReplay(path, &c); err != nil {
		t.Fatal(err)
	}
	e := ecoByName(t, c.Ecosystem)
	if e == nil {
		t.Skip("reference unavailable")
	}
	pool := c.Pool
	if len(pool) == 0 {
		pool = []string{c.V}
	}
	fails, _, err := evaluate(e, c.Req, pool, nil)
	if err != nil {
		t.Fatal(err)
	}
	for _, f := range fails {
		if knownClass(e, f, c.Req) == "" {
			t.Fatalf("replay fails: %s v=%s: %s (expected %s)", f.law, f.v, f.observed, f.expected)
		}
	}
}
