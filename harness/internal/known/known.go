// Package known reads /verif/known_findings.txt. The file is the source of
// truth for which genuine, recorded-but-unrepaired defects a check may step
// around; it is never written at run time.
//
// Line formats:
//
//	finding: property=C02 id=<slug> class=<Class> witness=<json> -- <what fails>
//	fixed: property=C14 <commit> <what failed>
//
// A class is a Go predicate in the property package that recognises the root
// cause on a generated case; it is consulted only while an open finding names
// it. The witness is replayed on every run.
package known

import (
	"bufio"
	"encoding/json"
	"os"
	"strings"
)

type Finding struct {
	Property string
	ID       string
	Class    string
	Witness  json.RawMessage
	Text     string
}

type File struct {
	Findings []Finding
}

func Load(path string) (*File, error) {
	f := &File{}
	if path == "" {
		return f, nil
	}
	fh, err := os.Open(path)
	if err != nil {
		return f, err
	}
	defer fh.Close()
	sc := bufio.NewScanner(fh)
	sc.Buffer(make([]byte, 1<<20), 1<<22)
	for sc.Scan() {
		line := strings.TrimSpace(sc.Text())
		if !strings.HasPrefix(line, "finding:") {
			continue
		}
		rest := strings.TrimSpace(strings.TrimPrefix(line, "finding:"))
		var fd Finding
		if i := strings.Index(rest, " -- "); i >= 0 {
			fd.Text = strings.TrimSpace(rest[i+4:])
			rest = rest[:i]
		}
		if i := strings.Index(rest, "witness="); i >= 0 {
			fd.Witness = json.RawMessage(strings.TrimSpace(rest[i+len("witness="):]))
			rest = rest[:i]
		}
		for _, f := range strings.Fields(rest) {
			k, v, ok := strings.Cut(f, "=")
			if !ok {
				continue
			}
			switch k {
			case "property":
				fd.Property = v
			case "id":
				fd.ID = v
			case "class":
				fd.Class = v
			}
		}
		f.Findings = append(f.Findings, fd)
	}
	return f, sc.Err()
}

// For returns the open findings of one property.
func (f *File) For(property string) []Finding {
	var out []Finding
	for _, fd := range f.Findings {
		if fd.Property == property {
			out = append(out, fd)
		}
	}
	return out
}

// Open reports whether an open finding of the property names the class.
func (f *File) Open(property, class string) bool {
	for _, fd := range f.Findings {
		if fd.Property == property && fd.Class == class {
			return true
		}
	}
	return false
}
