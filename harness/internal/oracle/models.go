package oracle

import (
	"regexp"
	"strconv"
	"strings"
)

// ---------------------------------------------------------------------------
// Gem::Version — transcription of rubygems/lib/rubygems/version.rb
// (VERSION_PATTERN, "-" => ".pre.", segments, canonical_segments, <=>).
// There is no Ruby in the sandbox; this model is the trusted base for the
// RubyGems part of C02 and is declared as such in the evidence.

var gemPattern = regexp.MustCompile(`^\s*([0-9]+(\.[0-9a-zA-Z]+)*(-[0-9A-Za-z-]+(\.[0-9A-Za-z-]+)*)?)?\s*$`)
var gemScan = regexp.MustCompile(`[0-9]+|[a-zA-Z]+`)

type GemSeg struct {
	IsNum bool
	Num   string // decimal digits without leading zeros (arbitrary precision)
	Str   string
}

type GemVersion struct {
	Version string
	Segs    []GemSeg
}

func GemCorrect(s string) bool { return gemPattern.MatchString(s) }

func normDigits(d string) string {
	d = strings.TrimLeft(d, "0")
	if d == "" {
		return "0"
	}
	return d
}

func GemParse(s string) (*GemVersion, bool) {
	if !GemCorrect(s) {
		return nil, false
	}
	v := strings.TrimSpace(s)
	if v == "" {
		v = "0"
	}
	v = strings.ReplaceAll(v, "-", ".pre.")
	g := &GemVersion{Version: v}
	for _, m := range gemScan.FindAllString(v, -1) {
		if m[0] >= '0' && m[0] <= '9' {
			g.Segs = append(g.Segs, GemSeg{IsNum: true, Num: normDigits(m)})
		} else {
			g.Segs = append(g.Segs, GemSeg{Str: m})
		}
	}
	return g, true
}

func (g *GemVersion) Prerelease() bool {
	for _, s := range g.Segs {
		if !s.IsNum {
			return true
		}
	}
	return false
}

func dropTrailingZeros(s []GemSeg) []GemSeg {
	for len(s) > 0 && s[len(s)-1].IsNum && s[len(s)-1].Num == "0" {
		s = s[:len(s)-1]
	}
	return s
}

func (g *GemVersion) Canonical() []GemSeg {
	split := len(g.Segs)
	for i, s := range g.Segs {
		if !s.IsNum {
			split = i
			break
		}
	}
	num := dropTrailingZeros(append([]GemSeg(nil), g.Segs[:split]...))
	str := dropTrailingZeros(append([]GemSeg(nil), g.Segs[split:]...))
	return append(num, str...)
}

func cmpDigits(a, b string) int {
	if len(a) != len(b) {
		if len(a) < len(b) {
			return -1
		}
		return 1
	}
	return strings.Compare(a, b)
}

func GemCompare(a, b *GemVersion) int {
	l, r := a.Canonical(), b.Canonical()
	n := len(l)
	if len(r) > n {
		n = len(r)
	}
	zero := GemSeg{IsNum: true, Num: "0"}
	for i := 0; i < n; i++ {
		x, y := zero, zero
		if i < len(l) {
			x = l[i]
		}
		if i < len(r) {
			y = r[i]
		}
		if x == y {
			continue
		}
		switch {
		case !x.IsNum && y.IsNum:
			return -1
		case x.IsNum && !y.IsNum:
			return 1
		case x.IsNum:
			if c := cmpDigits(x.Num, y.Num); c != 0 {
				return c
			}
		default:
			if c := strings.Compare(x.Str, y.Str); c != 0 {
				return c
			}
		}
	}
	return 0
}

// GemNormal is Gem::Version#to_s of the parsed version (the stored @version).
func (g *GemVersion) Normal() string { return g.Version }

// ---------------------------------------------------------------------------
// NuGet SemVer2 — transcription of NuGet.Versioning (NuGetVersion.TryParse,
// VersionComparer.Default = VersionComparison.Default, ToNormalizedString).

type NuGetVersion struct {
	Nums   [4]int64
	HasRev bool
	Labels []string
	Meta   string
}

var nugetLabel = regexp.MustCompile(`^[0-9A-Za-z-]+$`)

func NuGetParse(s string) (*NuGetVersion, bool) {
	s = strings.TrimSpace(s)
	if s == "" {
		return nil, false
	}
	v := &NuGetVersion{}
	rest := s
	if i := strings.IndexByte(rest, '+'); i >= 0 {
		v.Meta = rest[i+1:]
		rest = rest[:i]
		if v.Meta == "" {
			return nil, false
		}
		for _, p := range strings.Split(v.Meta, ".") {
			if !nugetLabel.MatchString(p) {
				return nil, false
			}
		}
	}
	if i := strings.IndexByte(rest, '-'); i >= 0 {
		lab := rest[i+1:]
		rest = rest[:i]
		if lab == "" {
			return nil, false
		}
		for _, p := range strings.Split(lab, ".") {
			if !nugetLabel.MatchString(p) {
				return nil, false
			}
			// numeric identifiers must not include leading zeros
			if len(p) > 1 && p[0] == '0' && allDigits(p) {
				return nil, false
			}
			v.Labels = append(v.Labels, p)
		}
	}
	parts := strings.Split(rest, ".")
	if len(parts) < 1 || len(parts) > 4 {
		return nil, false
	}
	for i, p := range parts {
		if p == "" || !allDigits(p) {
			return nil, false
		}
		n, err := strconv.ParseInt(p, 10, 32)
		if err != nil {
			return nil, false
		}
		v.Nums[i] = n
	}
	v.HasRev = len(parts) == 4
	return v, true
}

func allDigits(s string) bool {
	for i := 0; i < len(s); i++ {
		if s[i] < '0' || s[i] > '9' {
			return false
		}
	}
	return s != ""
}

func upperASCII(s string) string {
	b := []byte(s)
	for i, c := range b {
		if c >= 'a' && c <= 'z' {
			b[i] = c - 32
		}
	}
	return string(b)
}

func nugetCompareLabel(a, b string) int {
	an, aerr := strconv.ParseInt(a, 10, 32)
	bn, berr := strconv.ParseInt(b, 10, 32)
	switch {
	case aerr == nil && berr == nil:
		switch {
		case an < bn:
			return -1
		case an > bn:
			return 1
		}
		return 0
	case aerr == nil:
		return -1
	case berr == nil:
		return 1
	}
	return strings.Compare(upperASCII(a), upperASCII(b))
}

func NuGetCompare(a, b *NuGetVersion) int {
	for i := 0; i < 4; i++ {
		if a.Nums[i] != b.Nums[i] {
			if a.Nums[i] < b.Nums[i] {
				return -1
			}
			return 1
		}
	}
	switch {
	case len(a.Labels) == 0 && len(b.Labels) == 0:
		return 0
	case len(a.Labels) == 0:
		return 1
	case len(b.Labels) == 0:
		return -1
	}
	for i := 0; i < len(a.Labels) && i < len(b.Labels); i++ {
		if c := nugetCompareLabel(a.Labels[i], b.Labels[i]); c != 0 {
			if c < 0 {
				return -1
			}
			return 1
		}
	}
	switch {
	case len(a.Labels) < len(b.Labels):
		return -1
	case len(a.Labels) > len(b.Labels):
		return 1
	}
	return 0
}

// Normal is ToNormalizedString: Major.Minor.Patch[.Revision if non-zero][-labels].
func (v *NuGetVersion) Normal() string {
	s := strconv.FormatInt(v.Nums[0], 10) + "." + strconv.FormatInt(v.Nums[1], 10) + "." + strconv.FormatInt(v.Nums[2], 10)
	if v.Nums[3] != 0 {
		s += "." + strconv.FormatInt(v.Nums[3], 10)
	}
	if len(v.Labels) > 0 {
		s += "-" + strings.Join(v.Labels, ".")
	}
	return s
}
