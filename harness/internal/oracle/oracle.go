// Package oracle starts the reference-implementation servers (oracles/*) and
// speaks their one-line protocol. A server is started once per test process;
// queries are synchronous so rapid's shrinking can re-query it.
package oracle

import (
	"bufio"
	"encoding/json"
	"errors"
	"fmt"
	"io"
	"os"
	"os/exec"
	"path/filepath"
	"strings"
	"sync"
)

var ErrUnavailable = errors.New("reference tool not available")

type Paths struct {
	Node      string `json:"node"`
	Semver5   string `json:"semver5"`
	PythonVT  string `json:"python_vt"`
	PythonSys string `json:"python_sys"`
	Java      string `json:"java"`
	MavenCP   string `json:"maven_cp"`
	Classes   string `json:"classes"`
	RustBin   string `json:"rust_bin"`
	Dir       string `json:"dir"`
}

func LoadPaths() (*Paths, error) {
	root := os.Getenv("VERIF_ROOT")
	if root == "" {
		root = "/verif"
	}
	b, err := os.ReadFile(filepath.Join(root, "oracles", "paths.json"))
	if err != nil {
		return nil, fmt.Errorf("%w: oracles/paths.json missing (run ./check setup): %v", ErrUnavailable, err)
	}
	var p Paths
	if err := json.Unmarshal(b, &p); err != nil {
		return nil, err
	}
	if p.Dir == "" {
		p.Dir = filepath.Join(root, "oracles")
	}
	return &p, nil
}

type Server struct {
	Kind    string
	Version string
	mu      sync.Mutex
	cmd     *exec.Cmd
	in      io.WriteCloser
	out     *bufio.Reader
	Queries int64
	dead    error
}

// Start launches a server. Kinds: npm, py (packaging 26.x), pyold (pip's
// vendored 21.3), rust, mvn, eff (Maven model builder).
func Start(kind string) (*Server, error) {
	p, err := LoadPaths()
	if err != nil {
		return nil, err
	}
	var cmd *exec.Cmd
	switch kind {
	case "npm":
		if p.Node == "" {
			return nil, ErrUnavailable
		}
		cmd = exec.Command(p.Node, filepath.Join(p.Dir, "npm.js"))
		cmd.Env = append(os.Environ(), "VERIF_SEMVER5="+p.Semver5)
	case "py":
		if p.PythonVT == "" {
			return nil, ErrUnavailable
		}
		cmd = exec.Command(p.PythonVT, filepath.Join(p.Dir, "py.py"))
	case "pyold":
		if p.PythonSys == "" {
			return nil, ErrUnavailable
		}
		cmd = exec.Command(p.PythonSys, filepath.Join(p.Dir, "py.py"))
		cmd.Env = append(os.Environ(), "VERIF_VENDORED=1")
	case "rust":
		if p.RustBin == "" {
			return nil, ErrUnavailable
		}
		cmd = exec.Command(p.RustBin)
	case "mvn":
		if p.Java == "" || p.MavenCP == "" {
			return nil, ErrUnavailable
		}
		cmd = exec.Command(p.Java, "-Xss4m", "-XX:+UseSerialGC", "-XX:TieredStopAtLevel=1", "-cp", p.Classes+":"+p.MavenCP, "Mvn")
	case "eff":
		if p.Java == "" || p.MavenCP == "" {
			return nil, ErrUnavailable
		}
		cmd = exec.Command(p.Java, "-Xss4m", "-XX:+UseSerialGC",
			"-Dos.name=linux", "-Dos.arch=amd64", "-Dos.version=5.10.0-26-cloud-amd64",
			"-cp", p.Classes+":"+p.MavenCP, "Eff")
	default:
		return nil, fmt.Errorf("unknown oracle kind %q", kind)
	}
	cmd.Stderr = os.Stderr
	in, err := cmd.StdinPipe()
	if err != nil {
		return nil, err
	}
	out, err := cmd.StdoutPipe()
	if err != nil {
		return nil, err
	}
	if err := cmd.Start(); err != nil {
		return nil, fmt.Errorf("%w: %v", ErrUnavailable, err)
	}
	s := &Server{Kind: kind, cmd: cmd, in: in, out: bufio.NewReaderSize(out, 1<<20)}
	v, err := s.Ask("version")
	if err != nil {
		return nil, fmt.Errorf("%w: %s server did not answer: %v", ErrUnavailable, kind, err)
	}
	s.Version = v
	return s, nil
}

// Clean reports whether a string can travel over the line protocol.
func Clean(ss ...string) bool {
	for _, s := range ss {
		if strings.ContainsAny(s, "\t\n\r") {
			return false
		}
	}
	return true
}

// Ask sends one request and returns the reply line. A protocol failure is
// sticky: the run becomes inconclusive, never a violation.
func (s *Server) Ask(fields ...string) (string, error) {
	s.mu.Lock()
	defer s.mu.Unlock()
	if s.dead != nil {
		return "", s.dead
	}
	if !Clean(fields...) {
		return "", fmt.Errorf("oracle %s: field contains a tab or newline", s.Kind)
	}
	if _, err := io.WriteString(s.in, strings.Join(fields, "\t")+"\n"); err != nil {
		s.dead = fmt.Errorf("oracle %s: write: %w", s.Kind, err)
		return "", s.dead
	}
	line, err := s.out.ReadString('\n')
	if err != nil {
		s.dead = fmt.Errorf("oracle %s: read: %w", s.Kind, err)
		return "", s.dead
	}
	s.Queries++
	return strings.TrimRight(line, "\n"), nil
}

// AskJSON sends the fields as a JSON array (servers that support it: py,
// pyold), so that they may contain tabs. Newlines are still excluded.
func (s *Server) AskJSON(fields ...string) (string, error) {
	for _, f := range fields {
		if strings.ContainsAny(f, "\n\r") {
			return "", fmt.Errorf("oracle %s: field contains a newline", s.Kind)
		}
	}
	b, err := json.Marshal(fields)
	if err != nil {
		return "", err
	}
	s.mu.Lock()
	defer s.mu.Unlock()
	if s.dead != nil {
		return "", s.dead
	}
	if _, err := io.WriteString(s.in, "J"+string(b)+"\n"); err != nil {
		s.dead = fmt.Errorf("oracle %s: write: %w", s.Kind, err)
		return "", s.dead
	}
	line, err := s.out.ReadString('\n')
	if err != nil {
		s.dead = fmt.Errorf("oracle %s: read: %w", s.Kind, err)
		return "", s.dead
	}
	s.Queries++
	return strings.TrimRight(line, "\n"), nil
}

// Ask2 is for the npm server, which answers "<new>\t<old>".
func (s *Server) Ask2(fields ...string) (newer, older string, err error) {
	r, err := s.Ask(fields...)
	if err != nil {
		return "", "", err
	}
	a, b, _ := strings.Cut(r, "\t")
	return a, b, nil
}

func (s *Server) Close() {
	s.mu.Lock()
	defer s.mu.Unlock()
	if s.in != nil {
		s.in.Close()
	}
	if s.cmd != nil && s.cmd.Process != nil {
		s.cmd.Process.Kill()
		s.cmd.Wait()
	}
}
