// Package ev is the evidence accumulator and violation/replay writer shared by
// all property packages. One Recorder per test binary; Flush writes the shard
// file that the driver (/verif/check) merges into /verif/evidence/<id>.json.
package ev

import (
	"encoding/json"
	"flag"
	"fmt"
	"hash/fnv"
	"os"
	"path/filepath"
	"sort"
	"strconv"
	"strings"
	"sync"
	"testing"
	"time"

	"pgregory.net/rapid"
)

// Environment contract with the driver.
const (
	envTier    = "VERIF_TIER"    // quick | thorough
	envSeed    = "VERIF_SEED"    // integer; 0 is remapped to 1
	envShard   = "VERIF_SHARD"   // 0..n-1
	envNShards = "VERIF_NSHARDS" // n
	envOut     = "VERIF_EV_OUT"  // shard evidence file
	envReplays = "VERIF_REPLAY_DIR"
	envReplay  = "VERIF_REPLAY" // replay file to re-execute (replay mode)
	envKnown   = "VERIF_KNOWN"  // known_findings.txt
	envScale   = "VERIF_SCALE"  // float multiplier on case counts (development aid)
)

const maxHashes = 4 << 20 // per shard; above this the count is conservative (capped)

type Violation struct {
	Check    string `json:"check"`
	Replay   string `json:"replay"`
	Observed string `json:"observed"`
	Expected string `json:"expected"`
}

type KnownLine struct {
	ID   string `json:"id"`
	Text string `json:"text"`
}

type failure struct {
	seq      int64
	caseObj  any
	observed string
	expected string
}

type Recorder struct {
	Property string

	mu          sync.Mutex
	start       time.Time
	evals       int64
	hashes      map[uint64]struct{}
	capped      bool
	classes     map[string]int64
	exclKnown   map[string]int64
	exclDomain  map[string]int64
	samples     map[string][]any
	sampleOrder []string
	violations  []Violation
	known       []KnownLine
	assumptions []string
	rule        string
	extra       map[string]any
	perCheck    map[string]int64

	curCheck string
	seq      int64
	curCase  any
	curSeq   int64
	lastFail *failure
}

func New(property string) *Recorder {
	return &Recorder{
		Property:   property,
		start:      time.Now(),
		hashes:     map[uint64]struct{}{},
		classes:    map[string]int64{},
		exclKnown:  map[string]int64{},
		exclDomain: map[string]int64{},
		samples:    map[string][]any{},
		extra:      map[string]any{},
		perCheck:   map[string]int64{},
	}
}

func Tier() string {
	if t := os.Getenv(envTier); t == "thorough" {
		return t
	}
	return "quick"
}

func Thorough() bool { return Tier() == "thorough" }

func Seed() uint64 {
	n, _ := strconv.ParseUint(os.Getenv(envSeed), 10, 64)
	if n == 0 {
		n = 1
	}
	return n
}

func Shard() int {
	n, _ := strconv.Atoi(os.Getenv(envShard))
	return n
}

func NShards() int {
	n, _ := strconv.Atoi(os.Getenv(envNShards))
	if n < 1 {
		n = 1
	}
	return n
}

func ReplayFile() string { return os.Getenv(envReplay) }
func KnownFile() string  { return os.Getenv(envKnown) }

// N picks the case count for the tier. Thorough counts are totals over all
// shards; each shard runs its share.
func N(quick, thorough int) int {
	n := quick
	if Thorough() {
		n = (thorough + NShards() - 1) / NShards()
	}
	if s := os.Getenv(envScale); s != "" {
		if f, err := strconv.ParseFloat(s, 64); err == nil {
			n = int(float64(n) * f)
		}
	}
	if n < 1 {
		n = 1
	}
	return n
}

func hashStr(s string) uint64 {
	h := fnv.New64a()
	h.Write([]byte(s))
	return h.Sum64()
}

// Eval counts n oracle consultations.
func (r *Recorder) Eval(n int) {
	r.mu.Lock()
	r.evals += int64(n)
	r.perCheck[r.curCheck] += int64(n)
	r.mu.Unlock()
}

// NonTrivial records a case that is non-trivial by the property's rule,
// identified by its canonical text.
func (r *Recorder) NonTrivial(key string) {
	h := hashStr(r.curCheck + "\x00" + key)
	r.mu.Lock()
	if len(r.hashes) < maxHashes {
		r.hashes[h] = struct{}{}
	} else {
		r.capped = true
	}
	r.mu.Unlock()
}

func (r *Recorder) Class(name string) {
	r.mu.Lock()
	r.classes[r.curCheck+"/"+name]++
	r.mu.Unlock()
}

func (r *Recorder) ClassN(name string, n int) {
	r.mu.Lock()
	r.classes[r.curCheck+"/"+name] += int64(n)
	r.mu.Unlock()
}

func (r *Recorder) ExcludedKnown(class string) {
	r.mu.Lock()
	r.exclKnown[class]++
	r.mu.Unlock()
}

func (r *Recorder) ExcludedDomain(why string) {
	r.mu.Lock()
	r.exclDomain[r.curCheck+"/"+why]++
	r.mu.Unlock()
}

// Sample keeps up to 3 cases per check, written out in the evidence.
func (r *Recorder) Sample(v any) {
	r.mu.Lock()
	defer r.mu.Unlock()
	k := r.curCheck
	if len(r.samples[k]) >= 3 {
		return
	}
	if _, ok := r.samples[k]; !ok {
		r.sampleOrder = append(r.sampleOrder, k)
	}
	r.samples[k] = append(r.samples[k], v)
}

// SampleEvery keeps a sample when the per-check evaluation counter hits a few
// fixed points, so samples are spread over the run and deterministic.
func (r *Recorder) WantSample() bool {
	r.mu.Lock()
	defer r.mu.Unlock()
	return len(r.samples[r.curCheck]) < 3
}

func (r *Recorder) Assume(s string) {
	r.mu.Lock()
	defer r.mu.Unlock()
	for _, a := range r.assumptions {
		if a == s {
			return
		}
	}
	r.assumptions = append(r.assumptions, s)
}

func (r *Recorder) Rule(s string) { r.rule = s }

func (r *Recorder) Extra(k string, v any) {
	r.mu.Lock()
	r.extra[k] = v
	r.mu.Unlock()
}

func (r *Recorder) AddExtra(k string, n int64) {
	r.mu.Lock()
	old, _ := r.extra[k].(int64)
	r.extra[k] = old + n
	r.mu.Unlock()
}

// Known reports that a listed finding's witness still fails.
func (r *Recorder) Known(id, text string) {
	r.mu.Lock()
	r.known = append(r.known, KnownLine{id, text})
	r.mu.Unlock()
}

// SetCase records the decoded case currently being evaluated, so that a panic
// or a rapid-level failure can still be written as a replay file.
func (r *Recorder) SetCase(c any) {
	r.mu.Lock()
	r.seq++
	r.curCase = c
	r.curSeq = r.seq
	r.mu.Unlock()
}

// Fail records the failure of the current case and aborts the rapid case.
func (r *Recorder) Fail(t *rapid.T, c any, observed, expected string) {
	if os.Getenv("VERIF_EXPLORE") != "" {
		// Development aid: list failures instead of stopping at the first.
		fmt.Printf("EXPLORE %s case=%s observed=%s\n", r.curCheck, mustJSON(c), observed)
		return
	}
	r.mu.Lock()
	r.seq++
	r.lastFail = &failure{seq: r.seq, caseObj: c, observed: observed, expected: expected}
	r.mu.Unlock()
	t.Fatalf("%s: case=%s observed=%s expected=%s", r.curCheck, mustJSON(c), observed, expected)
}

func mustJSON(v any) string {
	b, err := json.Marshal(v)
	if err != nil {
		return fmt.Sprintf("%#v", v)
	}
	return string(b)
}

// Violation writes a replay file and records the violation. Used directly by
// non-rapid loops (exhaustive enumeration, corpus replay).
func (r *Recorder) Violation(check string, c any, observed, expected string) string {
	dir := os.Getenv(envReplays)
	if dir == "" {
		dir = os.TempDir()
	}
	os.MkdirAll(dir, 0o755)
	r.mu.Lock()
	n := len(r.violations)
	r.mu.Unlock()
	name := fmt.Sprintf("%s-%s-s%d-%d-%d.json", r.Property, sanitize(check), Seed(), Shard(), n)
	path := filepath.Join(dir, name)
	doc := map[string]any{
		"property": r.Property,
		"check":    check,
		"case":     c,
		"observed": observed,
		"expected": expected,
		"seed":     Seed(),
		"tier":     Tier(),
		"shrunk":   true,
	}
	b, _ := json.MarshalIndent(doc, "", " ")
	if err := os.WriteFile(path, b, 0o644); err != nil {
		fmt.Fprintf(os.Stderr, "ev: cannot write replay: %v\n", err)
	}
	r.mu.Lock()
	r.violations = append(r.violations, Violation{check, path, observed, expected})
	r.mu.Unlock()
	fmt.Printf("VIOLATION-DETAIL property=%s check=%s observed=%s expected=%s case=%s\n", r.Property, check, observed, expected, mustJSON(c))
	return path
}

func sanitize(s string) string {
	return strings.Map(func(c rune) rune {
		switch {
		case c >= 'a' && c <= 'z', c >= 'A' && c <= 'Z', c >= '0' && c <= '9', c == '-', c == '_':
			return c
		}
		return '_'
	}, s)
}

// SetCheck names the sub-check that subsequent counters belong to.
func (r *Recorder) SetCheck(name string) {
	r.mu.Lock()
	r.curCheck = name
	r.mu.Unlock()
}

// Check runs one rapid sub-check with n cases. A failure is shrunk by rapid;
// the last execution is the minimal one, and its decoded case becomes the
// replay file. Other sub-checks still run.
func (r *Recorder) Check(t *testing.T, name string, n int, prop func(*rapid.T)) bool {
	if only := os.Getenv("VERIF_ONLY"); only != "" && !strings.Contains(name, only) {
		return true // development aid: run a subset of sub-checks
	}
	r.SetCheck(name)
	r.mu.Lock()
	r.lastFail = nil
	r.curCase = nil
	r.mu.Unlock()
	seed := Seed()*1000003 + uint64(Shard())*7919 + hashStr(name)%1000
	if seed == 0 {
		seed = 1
	}
	flag.Set("rapid.checks", strconv.Itoa(n))
	flag.Set("rapid.seed", strconv.FormatUint(seed, 10))
	flag.Set("rapid.nofailfile", "true")
	if Thorough() {
		flag.Set("rapid.shrinktime", "60s")
	} else {
		flag.Set("rapid.shrinktime", "15s")
	}
	ok := t.Run(name, func(t *testing.T) { rapid.Check(t, prop) })
	if !ok {
		r.mu.Lock()
		lf, cc, cs := r.lastFail, r.curCase, r.curSeq
		r.mu.Unlock()
		switch {
		case lf != nil && lf.seq > cs:
			r.Violation(name, lf.caseObj, lf.observed, lf.expected)
		case cc != nil:
			r.Violation(name, cc, "panic or harness-level failure (see test log)", "property holds")
		default:
			r.Violation(name, nil, "failure outside a recorded case (see test log)", "property holds")
		}
	}
	return ok
}

type shardDoc struct {
	Property    string           `json:"property"`
	Tier        string           `json:"tier"`
	Seed        uint64           `json:"seed"`
	Shard       int              `json:"shard"`
	Evaluations int64            `json:"evaluations"`
	Distinct    int              `json:"distinct_nontrivial"`
	Capped      bool             `json:"capped"`
	HashFile    string           `json:"hash_file"`
	Classes     map[string]int64 `json:"classes"`
	PerCheck    map[string]int64 `json:"per_check"`
	ExclKnown   map[string]int64 `json:"excluded_known"`
	ExclDomain  map[string]int64 `json:"excluded_domain"`
	Samples     []any            `json:"samples"`
	Violations  []Violation      `json:"violations"`
	Known       []KnownLine      `json:"known"`
	Assumptions []string         `json:"assumptions"`
	Rule        string           `json:"rule"`
	Extra       map[string]any   `json:"extra"`
	WallS       float64          `json:"wall_s"`
}

// Flush writes the shard file (and the sorted hash list beside it).
func (r *Recorder) Flush() {
	out := os.Getenv(envOut)
	r.mu.Lock()
	defer r.mu.Unlock()
	var samples []any
	for _, k := range r.sampleOrder {
		for _, s := range r.samples[k] {
			samples = append(samples, map[string]any{"check": k, "case": s})
		}
	}
	doc := shardDoc{
		Property: r.Property, Tier: Tier(), Seed: Seed(), Shard: Shard(),
		Evaluations: r.evals, Distinct: len(r.hashes), Capped: r.capped,
		Classes: r.classes, PerCheck: r.perCheck, ExclKnown: r.exclKnown, ExclDomain: r.exclDomain,
		Samples: samples, Violations: r.violations, Known: r.known,
		Assumptions: r.assumptions, Rule: r.rule, Extra: r.extra,
		WallS: time.Since(r.start).Seconds(),
	}
	if out == "" {
		b, _ := json.MarshalIndent(doc, "", " ")
		if len(b) > 6000 {
			b = b[:6000]
		}
		fmt.Fprintf(os.Stderr, "ev (no %s set):\n%s\n", envOut, b)
		return
	}
	hs := make([]uint64, 0, len(r.hashes))
	for h := range r.hashes {
		hs = append(hs, h)
	}
	sort.Slice(hs, func(i, j int) bool { return hs[i] < hs[j] })
	var sb strings.Builder
	for _, h := range hs {
		fmt.Fprintf(&sb, "%016x\n", h)
	}
	doc.HashFile = out + ".hashes"
	os.WriteFile(doc.HashFile, []byte(sb.String()), 0o644)
	b, _ := json.Marshal(doc)
	os.WriteFile(out, b, 0o644)
}

// Main is the TestMain body shared by the property packages.
func Main(m *testing.M, r *Recorder) {
	code := m.Run()
	r.Flush()
	os.Exit(code)
}

// ReadReplay loads the "case" of a replay file into v and returns the check name.
func ReadReplay(path string, v any) (string, error) {
	b, err := os.ReadFile(path)
	if err != nil {
		return "", err
	}
	var doc struct {
		Check string          `json:"check"`
		Case  json.RawMessage `json:"case"`
	}
	if err := json.Unmarshal(b, &doc); err != nil {
		return "", err
	}
	if v != nil {
		if err := json.Unmarshal(doc.Case, v); err != nil {
			return doc.Check, err
		}
	}
	return doc.Check, nil
}
