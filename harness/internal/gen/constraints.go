package gen

import (
	"regexp"
	"sort"
	"strconv"
	"strings"

	"deps.dev/util/semver"
	"pgregory.net/rapid"
)

// Constraint literals use a tiny numeric alphabet so that the comparators of one
// constraint (and of two constraints in the set-algebra checks) interact.
var litNums = []string{"0", "1", "2", "3", "0", "1", "2", "4", "10"}

func litNum(t *rapid.T, label string) string {
	if rapid.IntRange(0, 39).Draw(t, label+"big") == 0 {
		return rapid.SampledFrom([]string{"99", "2147483648", "9223372036854775806"}).Draw(t, label+"b")
	}
	return rapid.SampledFrom(litNums).Draw(t, label)
}

var litPres = []string{"0", "alpha", "alpha.1", "beta", "rc.1", "1", "a", "rc", "alpha.0", "0.0", "pre", "01", "rc.007", "00", "1a", "x-y"}

// partial draws a (possibly partial, possibly wildcarded) version literal.
//
//	wild: allow x / X / * components; pre: allow a prerelease on a full version.
//
// anchors are full versions that operands are drawn from a third of the time,
// so that bounds of different comparators, alternatives and constraints
// coincide exactly (closed vs open ends at the same version, touching spans).
var anchors = []string{"1.0.0", "2.0.0", "1.5.0", "2.3.4", "0.0.0", "3.0.0", "1.2.3"}
var anchorsPre = []string{"1.0.0-0", "2.0.0-alpha", "1.2.3-alpha", "2.0.0-rc.1", "0.0.0-0"}

func partial(t *rapid.T, label string, wild, pre, build bool) string {
	if k := rapid.IntRange(0, 11).Draw(t, label+"anchor"); k < 4 {
		if pre && k == 0 {
			return rapid.SampledFrom(anchorsPre).Draw(t, label+"ap")
		}
		return rapid.SampledFrom(anchors).Draw(t, label+"a")
	}
	n := rapid.SampledFrom([]int{1, 2, 2, 3, 3, 3, 3}).Draw(t, label+"n")
	var parts []string
	for i := 0; i < n; i++ {
		if wild && i > 0 && rapid.IntRange(0, 7).Draw(t, label+"w") == 0 {
			parts = append(parts, rapid.SampledFrom([]string{"x", "X", "*"}).Draw(t, label+"wc"))
			// trailing components after a wildcard are wildcards or absent
			// (rarely a number: node-semver ignores whatever follows an x)
			for i++; i < n; i++ {
				parts = append(parts, rapid.SampledFrom([]string{"x", "*", "x", "*", "x", "*", "3"}).Draw(t, label+"wc2"))
			}
			return strings.Join(parts, ".")
		}
		parts = append(parts, litNum(t, label+"c"))
	}
	s := strings.Join(parts, ".")
	if n < 3 && pre && rapid.IntRange(0, 11).Draw(t, label+"shortpre") == 0 {
		// a prerelease on a short form (1-0, 1.0-0 are both 1.0.0-0)
		return s + "-" + rapid.SampledFrom([]string{"0", "alpha", "rc.1"}).Draw(t, label+"spre")
	}
	if n == 3 {
		if pre && rapid.IntRange(0, 9).Draw(t, label+"hp") < 3 {
			s += "-" + rapid.SampledFrom(litPres).Draw(t, label+"pre")
		}
		if build && rapid.IntRange(0, 11).Draw(t, label+"hb") == 0 {
			// (metadata may contain the letters that elsewhere mean a wildcard)
			s += "+" + rapid.SampledFrom([]string{"b", "1", "build.5", "x86", "linux", "exp.sha.5114f85", "X"}).Draw(t, label+"bld")
		}
	}
	return s
}

var npmOps = []string{"", "", "=", ">", ">=", "<", "<=", "^", "~", "~>", ">=", "<", "^", "~"}
var cargoOps = []string{"", "", "=", ">", ">=", "<", "<=", "^", "~", ">=", "<"}
var defaultOps = []string{"", "", "=", ">", ">=", "<", "<=", "^", "~", "~>", ">=", "<"}

func comparator(t *rapid.T, ops []string, wildOK bool) string {
	op := rapid.SampledFrom(ops).Draw(t, "op")
	if wildOK && rapid.IntRange(0, 24).Draw(t, "star") == 0 {
		return rapid.SampledFrom([]string{"*", "x", "", "X"}).Draw(t, "bare")
	}
	v := partial(t, "v", wildOK, true, true)
	sp := ""
	if op != "" && rapid.IntRange(0, 5).Draw(t, "sp") == 0 {
		sp = " "
	}
	return op + sp + v
}

// NPMRange generates an npm range: alternatives joined by ||, each a hyphen
// range or a space-separated comparator list.
func NPMRange() *rapid.Generator[string] { return orRange(npmOps, false) }

// DefaultRange is the union of npm and Cargo syntax.
func DefaultRange() *rapid.Generator[string] { return orRange(defaultOps, true) }

func orRange(ops []string, commaOK bool) *rapid.Generator[string] {
	return rapid.Custom(func(t *rapid.T) string {
		nalt := rapid.SampledFrom([]int{1, 1, 1, 2, 2, 3}).Draw(t, "nalt")
		var alts []string
		// a fan of alternatives that share their lower bound, one of them ending
		// at a prerelease: canonicalisation merges around the prerelease-ended
		// span, and where the merged span is emitted decides the printed order
		if rapid.IntRange(0, 29).Draw(t, "fan") == 0 {
			min := rapid.SampledFrom(anchors).Draw(t, "fanmin")
			hi := rapid.SampledFrom([]string{"3.1.3-beta", "2.0.0-alpha", "3.0.0-rc.1", "9.9.9-0"}).Draw(t, "fanhi")
			fan := []string{
				rapid.SampledFrom([]string{"^", "~", ">="}).Draw(t, "fanop") + min,
				">=" + min + " <=" + hi,
				rapid.SampledFrom([]string{">=" + min, ">=" + min + " <" + hi, min + " - 9"}).Draw(t, "fanlast"),
			}
			order := rapid.Permutation(fan).Draw(t, "fanorder")
			return strings.Join(order, " || ")
		}
		for i := 0; i < nalt; i++ {
			// an explicit interval between two anchor versions, each end open or
			// closed: alternatives (and the two constraints of a pair) then share
			// end points with different closedness
			if rapid.IntRange(0, 3).Draw(t, "interval") == 0 {
				all := append(append([]string{}, anchors...), anchorsPre...)
				lo := rapid.SampledFrom(all).Draw(t, "ilo")
				hi := rapid.SampledFrom(all).Draw(t, "ihi")
				alts = append(alts, rapid.SampledFrom([]string{">=", ">", ">="}).Draw(t, "ilop")+lo+" "+rapid.SampledFrom([]string{"<", "<=", "<"}).Draw(t, "ihop")+hi)
				continue
			}
			if rapid.IntRange(0, 9).Draw(t, "hyphen") == 0 {
				a := partial(t, "lo", true, true, false)
				b := partial(t, "hi", true, true, false)
				alts = append(alts, a+" - "+b)
				continue
			}
			nc := rapid.SampledFrom([]int{1, 1, 2, 2, 3}).Draw(t, "ncomp")
			var cs []string
			for j := 0; j < nc; j++ {
				cs = append(cs, comparator(t, ops, true))
			}
			sep := " "
			if commaOK && rapid.IntRange(0, 3).Draw(t, "comma") == 0 {
				sep = rapid.SampledFrom([]string{",", ", "}).Draw(t, "csep")
			}
			alts = append(alts, strings.Join(cs, sep))
		}
		orsep := rapid.SampledFrom([]string{" || ", "||", " ||", "|| "}).Draw(t, "orsep")
		return strings.Join(alts, orsep)
	})
}

// CargoReq generates a Cargo VersionReq: comma list with default caret.
func CargoReq() *rapid.Generator[string] {
	return rapid.Custom(func(t *rapid.T) string {
		nc := rapid.SampledFrom([]int{1, 1, 1, 2, 2, 3}).Draw(t, "ncomp")
		var cs []string
		for j := 0; j < nc; j++ {
			op := rapid.SampledFrom(cargoOps).Draw(t, "op")
			if rapid.IntRange(0, 24).Draw(t, "star") == 0 {
				cs = append(cs, "*")
				continue
			}
			// Cargo wildcards are only '*', and only as trailing components.
			v := partial(t, "v", false, true, true)
			if rapid.IntRange(0, 9).Draw(t, "wild") == 0 && !strings.ContainsAny(v, "-+") {
				parts := strings.Split(v, ".")
				if len(parts) > 1 {
					parts[len(parts)-1] = "*"
					v = strings.Join(parts, ".")
				}
			}
			sp := ""
			if op != "" && rapid.IntRange(0, 5).Draw(t, "sp") == 0 {
				sp = " "
			}
			cs = append(cs, op+sp+v)
		}
		return strings.Join(cs, rapid.SampledFrom([]string{",", ", ", " , "}).Draw(t, "sep"))
	})
}

// GoConstraint is just a Go version.
func GoConstraint() *rapid.Generator[string] {
	return rapid.Custom(func(t *rapid.T) string {
		s := "v" + litNum(t, "a") + "." + litNum(t, "b") + "." + litNum(t, "c")
		if rapid.IntRange(0, 9).Draw(t, "hp") < 3 {
			s += "-" + rapid.SampledFrom(litPres).Draw(t, "pre")
		}
		return s
	})
}

// NuGetRange generates NuGet ranges: bare, bracketed, floating.
func NuGetRange() *rapid.Generator[string] {
	return rapid.Custom(func(t *rapid.T) string {
		ver := func(label string) string {
			v := partial(t, label, false, true, false)
			// NuGet versions may have a fourth number (the revision).
			if strings.Count(v, ".") == 2 && rapid.IntRange(0, 5).Draw(t, label+"four") == 0 {
				rev := rapid.SampledFrom([]string{"0", "1", "4", "10"}).Draw(t, label+"rev")
				if i := strings.IndexByte(v, '-'); i > 0 {
					return v[:i] + "." + rev + v[i:]
				}
				return v + "." + rev
			}
			return v
		}
		switch rapid.IntRange(0, 7).Draw(t, "kind") {
		case 0:
			return ver("v")
		case 1:
			return "[" + ver("v") + "]"
		case 2:
			parts := strings.Split(partial(t, "f", false, false, false), ".")
			if len(parts) == 3 && rapid.IntRange(0, 3).Draw(t, "four") == 0 {
				return strings.Join(parts, ".") + ".*"
			}
			parts[len(parts)-1] = "*"
			return strings.Join(parts, ".")
		case 3:
			return rapid.SampledFrom([]string{"(", "["}).Draw(t, "l") + ver("lo") + ",)"
		case 4:
			return "(," + ver("hi") + rapid.SampledFrom([]string{")", "]"}).Draw(t, "r")
		default:
			return rapid.SampledFrom([]string{"(", "["}).Draw(t, "l") + ver("lo") + rapid.SampledFrom([]string{",", ", "}).Draw(t, "c") + ver("hi") + rapid.SampledFrom([]string{")", "]"}).Draw(t, "r")
		}
	})
}

var pypiOps = []string{"==", "!=", "<=", ">=", "<", ">", "~=", ">=", "<", "=="}

// PyPISpecifier generates comma lists of PEP 440 specifiers without epoch/local.
func PyPISpecifier() *rapid.Generator[string] {
	return rapid.Custom(func(t *rapid.T) string {
		nc := rapid.SampledFrom([]int{1, 1, 2, 2, 3}).Draw(t, "ncomp")
		var cs []string
		for j := 0; j < nc; j++ {
			op := rapid.SampledFrom(pypiOps).Draw(t, "op")
			n := rapid.SampledFrom([]int{1, 2, 2, 3, 3}).Draw(t, "n")
			if op == "~=" && n == 1 {
				n = 2
			}
			var parts []string
			for i := 0; i < n; i++ {
				parts = append(parts, litNum(t, "c"))
			}
			v := strings.Join(parts, ".")
			switch {
			case (op == "==" || op == "!=") && rapid.IntRange(0, 3).Draw(t, "star") == 0:
				v += ".*"
			case rapid.IntRange(0, 9).Draw(t, "suffix") < 2:
				v += rapid.SampledFrom([]string{"a1", "b2", "rc1", ".post1", ".dev1", "a0", ".post0", "A1", "RC1", "_rc_2", ".POST1", "-dev2"}).Draw(t, "sfx")
			}
			sp := rapid.SampledFrom([]string{"", "", " "}).Draw(t, "sp")
			cs = append(cs, op+sp+v)
		}
		return strings.Join(cs, rapid.SampledFrom([]string{",", ", ", " ,"}).Draw(t, "sep"))
	})
}

// MavenRangeSpec generates unions of bracketed ranges and bare (soft) versions.
func MavenRangeSpec() *rapid.Generator[string] {
	return rapid.Custom(func(t *rapid.T) string {
		ver := func(label string) string {
			n := rapid.SampledFrom([]int{1, 2, 2, 3}).Draw(t, label+"n")
			var parts []string
			for i := 0; i < n; i++ {
				parts = append(parts, litNum(t, label+"c"))
			}
			s := strings.Join(parts, ".")
			if rapid.IntRange(0, 9).Draw(t, label+"q") < 2 {
				s += rapid.SampledFrom([]string{"-alpha", "-beta-1", "-rc1", "-SNAPSHOT", "-sp", "-foo", "-rc-2"}).Draw(t, label+"qual")
			}
			return s
		}
		if rapid.IntRange(0, 5).Draw(t, "soft") == 0 {
			return ver("soft")
		}
		n := rapid.SampledFrom([]int{1, 1, 2, 2, 3}).Draw(t, "nr")
		var rs []string
		for i := 0; i < n; i++ {
			switch rapid.IntRange(0, 5).Draw(t, "kind") {
			case 0:
				rs = append(rs, "["+ver("v")+"]")
			case 1:
				rs = append(rs, rapid.SampledFrom([]string{"(", "["}).Draw(t, "l")+ver("lo")+",)")
			case 2:
				rs = append(rs, "(,"+ver("hi")+rapid.SampledFrom([]string{")", "]"}).Draw(t, "r"))
			default:
				rs = append(rs, rapid.SampledFrom([]string{"(", "["}).Draw(t, "l")+ver("lo")+","+ver("hi")+rapid.SampledFrom([]string{")", "]"}).Draw(t, "r"))
			}
		}
		return strings.Join(rs, ",")
	})
}

// Constraint is the default constraint generator of a system.
func Constraint(sys semver.System) *rapid.Generator[string] {
	switch sys {
	case semver.NPM:
		return NPMRange()
	case semver.Cargo:
		return CargoReq()
	case semver.Go:
		return GoConstraint()
	case semver.NuGet:
		return NuGetRange()
	case semver.PyPI:
		return PyPISpecifier()
	case semver.Maven:
		return MavenRangeSpec()
	}
	return DefaultRange()
}

var litRE = regexp.MustCompile(`[0-9]+(\.[0-9xX*]+){0,3}`)

// BoundaryVersions derives candidate versions from the version literals that
// occur in the given constraint texts: each literal completed to three
// components, its neighbours (each component ±1 with the lower ones zeroed and
// maxed), and prerelease/build variants. Span boundaries are where every
// confirmed defect lives; random candidates almost never hit them.
// style: "semver" (a.b.c[-pre][+build]), "go" (leading v), "pep440", "maven".
func BoundaryVersions(style string, texts ...string) []string {
	seen := map[string]bool{}
	var out []string
	add := func(s string) {
		if !seen[s] {
			seen[s] = true
			out = append(out, s)
		}
	}
	pfx := ""
	if style == "go" {
		pfx = "v"
	}
	for _, text := range texts {
		for _, lit := range litRE.FindAllString(text, -1) {
			parts := strings.Split(lit, ".")
			var n [3]uint64
			big := false
			for i := 0; i < 3; i++ {
				if i < len(parts) {
					if v, err := strconv.ParseUint(parts[i], 10, 63); err == nil {
						n[i] = v
						if v > 1<<40 {
							big = true
						}
					}
				}
			}
			f := func(a, b, c uint64) string {
				return pfx + strconv.FormatUint(a, 10) + "." + strconv.FormatUint(b, 10) + "." + strconv.FormatUint(c, 10)
			}
			base := f(n[0], n[1], n[2])
			var rel []string
			rel = append(rel, base, f(n[0], n[1], n[2]+1), f(n[0], n[1]+1, 0), f(n[0]+1, 0, 0), f(n[0], n[1]+1, 1), f(n[0]+1, 0, 1), f(n[0]+1, 1, 0))
			if n[2] > 0 {
				rel = append(rel, f(n[0], n[1], n[2]-1))
			}
			if n[1] > 0 {
				rel = append(rel, f(n[0], n[1]-1, 0), f(n[0], n[1]-1, 99))
			}
			if n[0] > 0 {
				rel = append(rel, f(n[0]-1, 0, 0), f(n[0]-1, 99, 99))
			}
			if big {
				rel = rel[:1]
			}
			for _, r := range rel {
				add(r)
			}
			switch style {
			case "semver", "go":
				// the short forms of the literal's own numbers with a prerelease
				// (1-0 and 1.0-0 are spellings of 1.0.0-0)
				if n[2] == 0 && !big {
					add(pfx + strconv.FormatUint(n[0], 10) + "." + strconv.FormatUint(n[1], 10) + "-0")
					if n[1] == 0 {
						add(pfx + strconv.FormatUint(n[0], 10) + "-0")
						add(pfx + strconv.FormatUint(n[0], 10) + "-alpha")
					}
				}
				for _, r := range rel[:minInt(len(rel), 4)] {
					add(r + "-0")
					add(r + "-alpha")
					add(r + "-alpha.1")
					add(r + "-rc.1")
				}
				add(base + "+build")
				add(base + "-alpha+b.1")
			case "pep440":
				add(strconv.FormatUint(n[0], 10) + "." + strconv.FormatUint(n[1], 10))
				if n[1] == 0 && n[2] == 0 {
					add(strconv.FormatUint(n[0], 10))
				}
				add(base + ".0")
				add(base + ".1")
				add(base + ".post1")
				add(strconv.FormatUint(n[0], 10) + "." + strconv.FormatUint(n[1], 10) + ".post0")
			case "maven":
				add(strconv.FormatUint(n[0], 10) + "." + strconv.FormatUint(n[1], 10))
				add(strconv.FormatUint(n[0], 10))
				add(base + "-alpha")
				add(base + "-rc1")
				add(base + "-SNAPSHOT")
				add(base + "-sp")
				add(base + "-1")
				add(base + ".1")
			}
		}
	}
	return out
}

func minInt(a, b int) int {
	if a < b {
		return a
	}
	return b
}

// SortedCopy returns a sorted copy (for canonical case keys).
func SortedCopy(s []string) []string {
	c := append([]string(nil), s...)
	sort.Strings(c)
	return c
}
