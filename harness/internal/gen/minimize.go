package gen

import "encoding/json"

func cloneUniverse(u Universe) Universe {
	b, _ := json.Marshal(u)
	var v Universe
	json.Unmarshal(b, &v)
	return v
}

// MinimizeUniverse greedily deletes packages, versions, requirements and
// attributes while fails keeps returning true. It is a development aid used to
// turn a large failing universe into a readable witness.
func MinimizeUniverse(u Universe, fails func(Universe) bool) Universe {
	for changed := true; changed; {
		changed = false
		for i := 0; i < len(u.Pkgs); i++ {
			v := cloneUniverse(u)
			v.Pkgs = append(v.Pkgs[:i], v.Pkgs[i+1:]...)
			if fails(v) {
				u, changed = v, true
				i--
			}
		}
		for i := range u.Pkgs {
			for j := 0; j < len(u.Pkgs[i].Versions); j++ {
				v := cloneUniverse(u)
				v.Pkgs[i].Versions = append(v.Pkgs[i].Versions[:j], v.Pkgs[i].Versions[j+1:]...)
				if fails(v) {
					u, changed = v, true
					j--
				}
			}
		}
		for i := range u.Pkgs {
			for j := range u.Pkgs[i].Versions {
				for k := 0; k < len(u.Pkgs[i].Versions[j].Reqs); k++ {
					v := cloneUniverse(u)
					rs := v.Pkgs[i].Versions[j].Reqs
					v.Pkgs[i].Versions[j].Reqs = append(rs[:k], rs[k+1:]...)
					if fails(v) {
						u, changed = v, true
						k--
					}
				}
				for k := 0; k < len(u.Pkgs[i].Versions[j].Attrs); k++ {
					v := cloneUniverse(u)
					as := v.Pkgs[i].Versions[j].Attrs
					v.Pkgs[i].Versions[j].Attrs = append(as[:k], as[k+1:]...)
					if fails(v) {
						u, changed = v, true
						k--
					}
				}
				// drop a requirement's dependency type
				for k := range u.Pkgs[i].Versions[j].Reqs {
					if u.Pkgs[i].Versions[j].Reqs[k].Type == "" {
						continue
					}
					v := cloneUniverse(u)
					v.Pkgs[i].Versions[j].Reqs[k].Type = ""
					if fails(v) {
						u, changed = v, true
					}
				}
			}
		}
	}
	return u
}
