package gen

import "regexp"

var mavenDomainRE = regexp.MustCompile(`^[0-9]+(\.[0-9]+){0,3}([-.]?[A-Za-z]+([-.]?[0-9]+)?)?(-(?i:snapshot))?$`)

// InMavenDomain reports whether s has the DESIGN §6.4 version shape:
// N(.N){0,3} [sep Q [sep N]] [-SNAPSHOT].
func InMavenDomain(s string) bool {
	return len(s) < 200 && mavenDomainRE.MatchString(s)
}
