// Package gen holds the input generators (DESIGN §6). Every random choice goes
// through rapid so that shrinking and replay work.
package gen

import (
	"strconv"
	"strings"

	"deps.dev/util/semver"
	"pgregory.net/rapid"
)

var Systems = []semver.System{
	semver.DefaultSystem, semver.Cargo, semver.Go, semver.Maven, semver.NPM,
	semver.NuGet, semver.PyPI, semver.RubyGems, semver.Composer,
}

// smallNums carries most of the mass so that equalities, adjacency and
// boundaries are common; bigNums are the hostile tail.
var smallNums = []string{"0", "1", "2", "3", "0", "1", "2", "9", "10", "11"}
var bigNums = []string{"99", "100", "2147483647", "2147483648", "4294967296", "9223372036854775806", "20181231235959"}

// Num draws a decimal component.
func Num() *rapid.Generator[string] {
	return rapid.Custom(func(t *rapid.T) string {
		k := rapid.IntRange(0, 19).Draw(t, "numk")
		switch {
		case k < 16:
			return rapid.SampledFrom(smallNums).Draw(t, "num")
		case k < 19:
			return rapid.SampledFrom(bigNums).Draw(t, "bignum")
		default:
			return strconv.FormatUint(rapid.Uint64Range(0, 1<<62).Draw(t, "rnd"), 10)
		}
	})
}

// SmallNum draws only from the small alphabet (used where int32 limits apply).
func SmallNum() *rapid.Generator[string] { return rapid.SampledFrom(smallNums) }

var preIdents = []string{
	"0", "1", "2", "10", "alpha", "beta", "rc", "a", "b", "A", "Alpha", "RC", "rc1", "x-y", "pre", "dev",
	"alpha1", "1a", "-", "z", "SNAPSHOT", "11", "9",
}

// nugetIdents: NuGet reads an all-digit identifier as a number only while it
// fits 32 bits; longer digit strings (build timestamps) are text.
var nugetIdents = []string{"0", "1", "2", "10", "alpha", "Alpha", "ALPHA", "beta", "rc", "RC", "a", "B", "rc1", "x-y", "2147483647", "2147483648", "01",
	"202401010000", "20231231235959", "2023w52", "99999999999", "3000000000", "3a", "-", "9",
	"-1", "-5", "-2147483648", "-1000000001", "-0000000001", "-2147483649"}

func ident(t *rapid.T, label string, leadingZero bool) string {
	k := rapid.IntRange(0, 9).Draw(t, label+"k")
	if k == 0 && leadingZero {
		return rapid.SampledFrom([]string{"01", "00", "007", "010"}).Draw(t, label+"lz")
	}
	if k == 1 {
		return rapid.StringMatching(`[0-9A-Za-z-]{1,4}`).Draw(t, label+"rnd")
	}
	return rapid.SampledFrom(preIdents).Draw(t, label)
}

type SemverOpts struct {
	Strict bool // exactly three components, no prefix (SemVer 2.0 differential domain)
}

// SemverLike generates versions for Default, NPM, Cargo, Go, Composer and NuGet.
func SemverLike(sys semver.System, o SemverOpts) *rapid.Generator[string] {
	return rapid.Custom(func(t *rapid.T) string {
		var b strings.Builder
		switch sys {
		case semver.Go:
			b.WriteByte('v')
		case semver.NPM:
			if !o.Strict && rapid.IntRange(0, 9).Draw(t, "vpre") == 0 {
				b.WriteString(rapid.SampledFrom([]string{"v", "vv"}).Draw(t, "v"))
			}
		case semver.Composer:
			if !o.Strict && rapid.IntRange(0, 7).Draw(t, "vpre") == 0 {
				b.WriteString(rapid.SampledFrom([]string{"v", "V"}).Draw(t, "v"))
			}
		}
		n := 3
		if !o.Strict {
			maxn := 3
			if sys == semver.Composer || sys == semver.NuGet {
				maxn = 4
			}
			k := rapid.IntRange(0, 9).Draw(t, "ncomp")
			switch {
			case k == 0:
				n = 1
			case k == 1:
				n = 2
			case k == 2:
				n = maxn
			}
		}
		hasPre := rapid.IntRange(0, 9).Draw(t, "haspre") < 5
		hasBuild := rapid.IntRange(0, 9).Draw(t, "hasbuild") < 2
		if sys == semver.Go && (hasPre || hasBuild) {
			n = 3
		}
		for i := 0; i < n; i++ {
			if i > 0 {
				b.WriteByte('.')
			}
			c := Num().Draw(t, "c")
			if !o.Strict && (sys == semver.NPM || sys == semver.NuGet || sys == semver.Composer) && rapid.IntRange(0, 29).Draw(t, "lz") == 0 {
				c = "0" + c
			}
			b.WriteString(c)
		}
		if hasPre {
			b.WriteByte('-')
			np := rapid.IntRange(1, 3).Draw(t, "npre")
			for i := 0; i < np; i++ {
				if i > 0 {
					b.WriteByte('.')
				}
				// Numeric identifiers with leading zeros are invalid SemVer.
				b.WriteString(ident(t, "pre", !o.Strict))
			}
		}
		if hasBuild {
			b.WriteByte('+')
			nb := rapid.IntRange(1, 2).Draw(t, "nbuild")
			for i := 0; i < nb; i++ {
				if i > 0 {
					b.WriteByte('.')
				}
				b.WriteString(ident(t, "build", true))
			}
		}
		return b.String()
	})
}

var pep440Pre = []string{"a", "b", "c", "rc", "alpha", "beta", "pre", "preview", "A", "RC", "Alpha", "BETA"}
var pep440Post = []string{"post", "rev", "r", "POST", "Rev"}
var pepSeps = []string{"", ".", "-", "_"}

// PEP440 generates the full PEP 440 grammar incl. alternative spellings.
// normal=true restricts to the normal form (the output of str(Version)).
func PEP440(normal bool) *rapid.Generator[string] {
	return rapid.Custom(func(t *rapid.T) string {
		var b strings.Builder
		if rapid.IntRange(0, 11).Draw(t, "epoch") == 0 {
			b.WriteString(rapid.SampledFrom([]string{"0", "1", "2", "10"}).Draw(t, "ep"))
			b.WriteByte('!')
		}
		if !normal && rapid.IntRange(0, 14).Draw(t, "v") == 0 {
			b.WriteString(rapid.SampledFrom([]string{"v", "V"}).Draw(t, "vv"))
		}
		n := rapid.SampledFrom([]int{1, 2, 2, 3, 3, 3, 4, 5}).Draw(t, "nrel")
		for i := 0; i < n; i++ {
			if i > 0 {
				b.WriteByte('.')
			}
			c := Num().Draw(t, "c")
			if !normal && rapid.IntRange(0, 29).Draw(t, "lz") == 0 {
				c = "0" + c
			}
			b.WriteString(c)
		}
		num := func(label string) string {
			if normal {
				return rapid.SampledFrom([]string{"0", "1", "2", "10"}).Draw(t, label)
			}
			return rapid.SampledFrom([]string{"", "0", "1", "2", "10", "01"}).Draw(t, label)
		}
		sep := func(label string) string {
			if normal {
				return ""
			}
			return rapid.SampledFrom(pepSeps).Draw(t, label)
		}
		if rapid.IntRange(0, 9).Draw(t, "haspre") < 4 {
			if normal {
				b.WriteString(rapid.SampledFrom([]string{"a", "b", "rc"}).Draw(t, "pre"))
			} else {
				b.WriteString(sep("presep"))
				b.WriteString(rapid.SampledFrom(pep440Pre).Draw(t, "pre"))
				b.WriteString(sep("prensep"))
			}
			b.WriteString(num("pren"))
		}
		if rapid.IntRange(0, 9).Draw(t, "haspost") < 3 {
			if normal {
				b.WriteString(".post")
				b.WriteString(num("postn"))
			} else if rapid.IntRange(0, 4).Draw(t, "implicit") == 0 {
				b.WriteString("-")
				b.WriteString(rapid.SampledFrom([]string{"0", "1", "2", "10"}).Draw(t, "postn"))
			} else {
				b.WriteString(sep("postsep"))
				b.WriteString(rapid.SampledFrom(pep440Post).Draw(t, "post"))
				b.WriteString(sep("postnsep"))
				b.WriteString(num("postn"))
			}
		}
		if rapid.IntRange(0, 9).Draw(t, "hasdev") < 3 {
			if normal {
				b.WriteString(".dev")
			} else {
				b.WriteString(sep("devsep"))
				b.WriteString(rapid.SampledFrom([]string{"dev", "DEV", "Dev"}).Draw(t, "dev"))
				b.WriteString(sep("devnsep"))
			}
			b.WriteString(num("devn"))
		}
		if rapid.IntRange(0, 9).Draw(t, "haslocal") < 2 {
			b.WriteByte('+')
			nl := rapid.IntRange(1, 3).Draw(t, "nlocal")
			for i := 0; i < nl; i++ {
				if i > 0 {
					if normal {
						b.WriteByte('.')
					} else {
						b.WriteString(rapid.SampledFrom([]string{".", "-", "_"}).Draw(t, "lsep"))
					}
				}
				ls := []string{"1", "2", "10", "abc", "ubuntu", "a", "b", "1a", "007", "0"}
				if !normal {
					ls = append(ls, "ABC", "Ubuntu", "A")
				}
				b.WriteString(rapid.SampledFrom(ls).Draw(t, "l"))
			}
		}
		return b.String()
	})
}

// Maven qualifiers (DESIGN §6.4).
var MavenQualifiers = []string{
	"alpha", "beta", "milestone", "rc", "cr", "snapshot", "ga", "final", "release", "sp",
	"a", "b", "m", "foo", "xyz", "jre", "Alpha", "RC", "Final", "SP", "SNAPSHOT", "BETA", "android", "redhat",
}

type MavenOpts struct {
	// Differential restricts to the sub-domain on which the installed Maven
	// 3.8.7 and the documented 3.6.0/3.8.6 rules coincide: no qualifier
	// introduced by '.', and no release-equivalent qualifier followed by a number.
	Differential bool
}

func isReleaseEquiv(q string) bool {
	switch strings.ToLower(q) {
	case "ga", "final", "release":
		return true
	}
	return false
}

// Maven generates N(.N){0,3} [sep1 Q [sep2 N]] [-SNAPSHOT].
func Maven(o MavenOpts) *rapid.Generator[string] {
	return rapid.Custom(func(t *rapid.T) string {
		var b strings.Builder
		n := rapid.SampledFrom([]int{1, 2, 2, 3, 3, 3, 4}).Draw(t, "nnum")
		zeroHeavy := rapid.IntRange(0, 3).Draw(t, "zeros") == 0
		for i := 0; i < n; i++ {
			if i > 0 {
				b.WriteByte('.')
			}
			if zeroHeavy {
				b.WriteString(rapid.SampledFrom([]string{"0", "0", "0", "1"}).Draw(t, "z"))
			} else {
				b.WriteString(Num().Draw(t, "c"))
			}
		}
		if rapid.IntRange(0, 9).Draw(t, "hasq") < 6 {
			seps := []string{"-", ".", ""}
			if o.Differential {
				seps = []string{"-", ""}
			}
			b.WriteString(rapid.SampledFrom(seps).Draw(t, "sep1"))
			q := rapid.SampledFrom(MavenQualifiers).Draw(t, "q")
			b.WriteString(q)
			if !(o.Differential && isReleaseEquiv(q)) && rapid.IntRange(0, 9).Draw(t, "hasqn") < 5 {
				b.WriteString(rapid.SampledFrom([]string{"-", ".", ""}).Draw(t, "sep2"))
				b.WriteString(rapid.SampledFrom([]string{"0", "1", "2", "3", "10", "01"}).Draw(t, "qn"))
			}
		}
		if rapid.IntRange(0, 9).Draw(t, "snap") < 2 {
			b.WriteString("-SNAPSHOT")
		}
		return b.String()
	})
}

// RubyGems generates N(.N)* with optional prerelease segments.
func RubyGems(releaseOnly bool) *rapid.Generator[string] {
	return rapid.Custom(func(t *rapid.T) string {
		var b strings.Builder
		n := rapid.SampledFrom([]int{1, 2, 3, 3, 3, 4, 5, 6}).Draw(t, "nnum")
		zeroHeavy := rapid.IntRange(0, 3).Draw(t, "zeros") == 0
		for i := 0; i < n; i++ {
			if i > 0 {
				b.WriteByte('.')
			}
			if zeroHeavy {
				b.WriteString(rapid.SampledFrom([]string{"0", "0", "1"}).Draw(t, "z"))
			} else {
				b.WriteString(Num().Draw(t, "c"))
			}
		}
		if releaseOnly || rapid.IntRange(0, 9).Draw(t, "haspre") >= 5 {
			return b.String()
		}
		np := rapid.IntRange(1, 4).Draw(t, "npre")
		for i := 0; i < np; i++ {
			k := rapid.IntRange(0, 9).Draw(t, "prek")
			seg := rapid.SampledFrom([]string{"a", "b", "rc", "pre", "alpha", "beta", "RC", "A", "rc1", "b5", "x", "z"}).Draw(t, "seg")
			switch {
			case k < 5:
				b.WriteString("." + seg)
			case k < 6 && i == 0:
				b.WriteString(seg) // attached: 1.2.3b5
			case k < 8:
				b.WriteString("-" + seg)
			default:
				b.WriteString("." + rapid.SampledFrom([]string{"0", "1", "2", "10"}).Draw(t, "pn"))
				if i == 0 {
					// a prerelease needs a letter somewhere; make sure one follows
					b.WriteString("." + seg)
				}
			}
		}
		return b.String()
	})
}

// NuGet generates N.N.N[.N][-labels][+meta].
func NuGet() *rapid.Generator[string] {
	return rapid.Custom(func(t *rapid.T) string {
		var b strings.Builder
		n := rapid.SampledFrom([]int{1, 2, 3, 3, 3, 4, 4}).Draw(t, "nnum")
		for i := 0; i < n; i++ {
			if i > 0 {
				b.WriteByte('.')
			}
			c := SmallNum().Draw(t, "c")
			if rapid.IntRange(0, 19).Draw(t, "big") == 0 {
				c = rapid.SampledFrom([]string{"2147483647", "100", "99"}).Draw(t, "bigc")
			}
			if rapid.IntRange(0, 29).Draw(t, "lz") == 0 {
				c = "0" + c
			}
			b.WriteString(c)
		}
		if rapid.IntRange(0, 9).Draw(t, "haspre") < 5 {
			b.WriteByte('-')
			np := rapid.IntRange(1, 3).Draw(t, "npre")
			for i := 0; i < np; i++ {
				if i > 0 {
					b.WriteByte('.')
				}
				b.WriteString(rapid.SampledFrom(nugetIdents).Draw(t, "pre"))
			}
		}
		if rapid.IntRange(0, 9).Draw(t, "hasbuild") < 2 {
			b.WriteByte('+')
			b.WriteString(rapid.SampledFrom([]string{"build", "1", "sha.abc", "001"}).Draw(t, "build"))
		}
		return b.String()
	})
}

// Version is the default generator for a system (full, non-differential domain).
func Version(sys semver.System) *rapid.Generator[string] {
	switch sys {
	case semver.Maven:
		return Maven(MavenOpts{})
	case semver.PyPI:
		return PEP440(false)
	case semver.RubyGems:
		return RubyGems(false)
	case semver.NuGet:
		return NuGet()
	}
	return SemverLike(sys, SemverOpts{})
}

// Neighbour mutates a version string into a nearly equal one: the interesting
// relations live between nearly equal inputs.
func isLetter(c byte) bool { return c >= 'a' && c <= 'z' || c >= 'A' && c <= 'Z' }

func Neighbour(sys semver.System, base string) *rapid.Generator[string] {
	return rapid.Custom(func(t *rapid.T) string {
		k := rapid.IntRange(0, 11).Draw(t, "mut")
		switch k {
		case 0: // bump/lower one numeric run
			return tweakNumber(t, base)
		case 1: // pad with .0
			if i := strings.IndexAny(base, "-+"); i > 0 && sys != semver.PyPI {
				return base[:i] + ".0" + base[i:]
			}
			if !strings.ContainsAny(base, "-+abcdefghijklmnopqrstuvwxyzABCDEFGHIJKLMNOPQRSTUVWXYZ!") {
				return base + ".0"
			}
			return base
		case 2: // drop the last dotted component of the numeric prefix
			end := len(base)
			if i := strings.IndexAny(base, "-+"); i > 0 {
				end = i
			}
			if j := strings.LastIndexByte(base[:end], '.'); j > 0 {
				return base[:j] + base[end:]
			}
			return base
		case 3: // drop or add a prerelease
			if i := strings.IndexByte(base, '-'); i > 0 {
				if j := strings.IndexByte(base, '+'); j > i {
					return base[:i] + base[j:]
				}
				return base[:i]
			}
			switch sys {
			case semver.PyPI:
				return base + rapid.SampledFrom([]string{"a1", "rc1", ".dev1", ".post1", "b0", "-1", ".post0", "a0"}).Draw(t, "suffix")
			case semver.Maven:
				return base + rapid.SampledFrom([]string{"-alpha", "-rc-1", "-SNAPSHOT", ".Final", "-sp", "-ga", "-foo", ".0", "-0", "-1"}).Draw(t, "suffix")
			case semver.RubyGems:
				return base + rapid.SampledFrom([]string{".a", ".rc1", "-x", ".pre", ".b.1", ".0", ".a.0"}).Draw(t, "suffix")
			}
			if strings.ContainsRune(base, '+') {
				return base
			}
			return base + rapid.SampledFrom([]string{"-0", "-alpha", "-alpha.1", "-rc.1", "-1", "-a", "-A"}).Draw(t, "suffix")
		case 4: // add build metadata where it exists
			switch sys {
			case semver.Maven, semver.RubyGems:
				return base
			case semver.PyPI:
				if !strings.ContainsRune(base, '+') {
					return base + rapid.SampledFrom([]string{"+1", "+abc", "+local.1", "+ABC", "+1.abc"}).Draw(t, "local")
				}
				return base
			}
			if !strings.ContainsRune(base, '+') {
				return base + rapid.SampledFrom([]string{"+b", "+1", "+build.7"}).Draw(t, "build")
			}
			return base
		case 5: // change case
			if rapid.Bool().Draw(t, "upper") {
				if sys == semver.Go {
					return base
				}
				return strings.ToUpper(base)
			}
			return strings.ToLower(base)
		case 6: // extend the prerelease
			if strings.ContainsRune(base, '-') && !strings.ContainsRune(base, '+') {
				return base + rapid.SampledFrom([]string{".0", ".1", ".a", "-", "0"}).Draw(t, "preext")
			}
			return base
		case 7: // leading v; for PEP 440 also the explicit zero epoch
			if sys == semver.PyPI && rapid.Bool().Draw(t, "epochtoggle") {
				if i := strings.IndexByte(base, '!'); i >= 0 {
					if strings.Trim(base[:i], "0") == "" {
						return base[i+1:]
					}
					return base
				}
				if !strings.HasPrefix(base, "v") && !strings.HasPrefix(base, "V") {
					return rapid.SampledFrom([]string{"0!", "0!", "00!"}).Draw(t, "zeroepoch") + base
				}
				return base
			}
			switch sys {
			case semver.NPM, semver.Composer, semver.PyPI:
				if !strings.HasPrefix(base, "v") && !strings.ContainsRune(base, '!') {
					return "v" + base
				}
			}
			return base
		case 8: // swap separator styles
			switch sys {
			case semver.Maven:
				if i := strings.IndexByte(base, '-'); i > 0 {
					return base[:i] + "." + base[i+1:]
				}
			case semver.PyPI:
				r := strings.NewReplacer(".post", "-", "rc", "c", "a", "alpha", ".dev", "dev")
				return r.Replace(base)
			case semver.RubyGems:
				if i := strings.IndexByte(base, '-'); i > 0 {
					return base[:i] + ".pre." + base[i+1:]
				}
			}
			return base
		case 10: // replace the last prerelease identifier by another one
			switch sys {
			case semver.Maven, semver.PyPI, semver.RubyGems:
				return base
			}
			i := strings.IndexByte(base, '-')
			if i < 0 {
				return base
			}
			end := len(base)
			if j := strings.IndexByte(base, '+'); j > i {
				end = j
			}
			start := i + 1
			if j := strings.LastIndexByte(base[:end], '.'); j > i {
				start = j + 1
			}
			pool := preIdents
			if sys == semver.NuGet {
				pool = nugetIdents
			}
			return base[:start] + rapid.SampledFrom(pool).Draw(t, "newident") + base[end:]
		case 9: // replace a qualifier by an alias or a sibling of the same rank
			var pairs [][2]string
			switch sys {
			case semver.Maven:
				pairs = [][2]string{{"rc", "cr"}, {"cr", "rc"}, {"RC", "CR"}, {"CR", "RC"}, {"alpha", "a"}, {"beta", "b"}, {"milestone", "m"}, {"ga", "final"}, {"final", "release"}, {"release", "ga"}, {"Final", "GA"}, {"sp", "SP"}, {"snapshot", "SNAPSHOT"}, {"a", "alpha"}, {"b", "beta"}, {"m", "milestone"}}
			case semver.PyPI:
				pairs = [][2]string{{"alpha", "a"}, {"beta", "b"}, {"rc", "c"}, {"c", "rc"}, {"pre", "rc"}, {"preview", "rc"}, {"rc", "pre"}, {"post", "rev"}, {"rev", "post"}, {"post", "r"}, {".post", "-"}, {"a", "alpha"}, {"b", "beta"}, {"dev", "DEV"}}
			default:
				return base
			}
			start := rapid.IntRange(0, len(pairs)-1).Draw(t, "aliasstart")
			for i := range pairs {
				pr := pairs[(start+i)%len(pairs)]
				if j := strings.Index(base, pr[0]); j >= 0 {
					// whole token only: not inside a longer word
					before := j == 0 || !isLetter(base[j-1])
					after := j+len(pr[0]) >= len(base) || !isLetter(base[j+len(pr[0])])
					if before && after {
						return base[:j] + pr[1] + base[j+len(pr[0]):]
					}
				}
			}
			return base
		default:
			return base
		}
	})
}

func tweakNumber(t *rapid.T, s string) string {
	// locate digit runs
	type run struct{ a, b int }
	var runs []run
	for i := 0; i < len(s); {
		if s[i] >= '0' && s[i] <= '9' {
			j := i
			for j < len(s) && s[j] >= '0' && s[j] <= '9' {
				j++
			}
			runs = append(runs, run{i, j})
			i = j
		} else {
			i++
		}
	}
	if len(runs) == 0 {
		return s
	}
	r := runs[rapid.IntRange(0, len(runs)-1).Draw(t, "run")]
	n, err := strconv.ParseUint(s[r.a:r.b], 10, 63)
	if err != nil {
		return s
	}
	switch rapid.IntRange(0, 3).Draw(t, "delta") {
	case 0:
		n++
	case 1:
		if n > 0 {
			n--
		}
	case 2:
		n = 0
	case 3:
		n = n*10 + 1
		if n > 1<<62 {
			n = 1 << 62
		}
	}
	return s[:r.a] + strconv.FormatUint(n, 10) + s[r.b:]
}

// Triple draws three versions: one base and two neighbours 60 % of the time.
func Triple(sys semver.System, g *rapid.Generator[string]) *rapid.Generator[[3]string] {
	return rapid.Custom(func(t *rapid.T) [3]string {
		a := g.Draw(t, "a")
		var out [3]string
		out[0] = a
		// One slot, three identifiers: the versions agree except for their last
		// prerelease identifier (comparator laws are decided there).
		// Maven: one numeric prefix, three endings (bare, a qualifier after '.'
		// or '-', with or without a number): the padding rules for versions of
		// different length are where transitivity is at stake.
		if sys == semver.Maven && rapid.IntRange(0, 4).Draw(t, "mvnprefix") == 0 {
			end := 0
			for end < len(a) && (a[end] >= '0' && a[end] <= '9' || a[end] == '.') {
				end++
			}
			prefix := strings.TrimRight(a[:end], ".")
			if prefix != "" {
				endings := []string{"", "", "-rc1", ".rc1", "-SP1", ".SP1", "-sp", ".sp", "-SNAPSHOT", ".SNAPSHOT", "-beta2", ".beta2", "-alpha", ".Final", "-ga", ".1", "-1", ".0", "-foo", ".foo", "-SP1-SNAPSHOT", ".SP1-SNAPSHOT", "-cr1", "-m1",
					// one qualifier, the number after it spelled and separated in every way
					"-rc-1", "-rc.1", "-rc-01", "-rc.01", "-rc01", "-01", ".01", "-beta-1", "-beta.1", "-beta-01"}
				if strings.Count(prefix, ".") < 3 && rapid.IntRange(0, 3).Draw(t, "zerospelling") == 0 {
					// a zero component spelled 0 and 00 before one qualifier, and the
					// version without that component
					e := rapid.SampledFrom([]string{".alpha", ".beta1", ".rc1", "-rc1", ".Final", ".sp", ".foo", ".1", "-1"}).Draw(t, "zq")
					third := rapid.SampledFrom([]string{"", e, ".0", "-SNAPSHOT"}).Draw(t, "zthird")
					perm := rapid.Permutation([]string{prefix + ".0" + e, prefix + ".00" + e, prefix + third}).Draw(t, "zorder")
					copy(out[:], perm)
					return out
				}
				for k := 0; k < 3; k++ {
					pfx := prefix
					// the same numbers with a zero component more, spelled 0 or 00
					if strings.Count(prefix, ".") < 3 {
						switch rapid.IntRange(0, 5).Draw(t, "zeropad") {
						case 0:
							pfx = prefix + ".0"
						case 1:
							pfx = prefix + ".00"
						}
					}
					out[k] = pfx + rapid.SampledFrom(endings).Draw(t, "ending")
				}
				return out
			}
		}
		switch sys {
		case semver.Maven, semver.PyPI, semver.RubyGems:
		default:
			if i := strings.IndexByte(a, '-'); i > 0 && rapid.IntRange(0, 4).Draw(t, "slot") == 0 {
				end := len(a)
				if j := strings.IndexByte(a, '+'); j > i {
					end = j
				}
				start := i + 1
				if j := strings.LastIndexByte(a[:end], '.'); j > i {
					start = j + 1
				}
				pool := preIdents
				if sys == semver.NuGet {
					pool = nugetIdents
				}
				for k := 1; k < 3; k++ {
					out[k] = a[:start] + rapid.SampledFrom(pool).Draw(t, "slotident") + a[end:]
				}
				return out
			}
		}
		for i := 1; i < 3; i++ {
			if rapid.IntRange(0, 9).Draw(t, "near") < 6 {
				base := out[rapid.IntRange(0, i-1).Draw(t, "from")]
				out[i] = Neighbour(sys, base).Draw(t, "n")
			} else {
				out[i] = g.Draw(t, "v")
			}
		}
		return out
	})
}

// WildcardPattern generates version strings with wildcard components (1.x,
// 1.2.*, *, NuGet floating versions) mixed with the short and zero-padded
// spellings of the same numbers, which Parse accepts in Default, NPM, Cargo
// and NuGet.
func WildcardPattern(sys semver.System) *rapid.Generator[string] {
	return rapid.Custom(func(t *rapid.T) string {
		num := rapid.SampledFrom([]string{"0", "1", "2", "10"})
		wild := "*"
		if sys != semver.NuGet {
			wild = rapid.SampledFrom([]string{"*", "x", "X"}).Draw(t, "wild")
		}
		n := rapid.IntRange(1, 3).Draw(t, "ncomp")
		if sys == semver.NuGet {
			n = rapid.IntRange(1, 4).Draw(t, "ncomp4")
		}
		var parts []string
		for i := 0; i < n; i++ {
			parts = append(parts, num.Draw(t, "n"))
		}
		switch rapid.IntRange(0, 5).Draw(t, "shape") {
		case 0, 1: // last component wild
			parts[n-1] = wild
		case 2: // wild tail of length two
			parts[n-1] = wild
			if n >= 2 && sys != semver.NuGet {
				parts[n-2] = wild
			}
		case 3: // zero tail
			parts[n-1] = "0"
		case 4: // plain
		case 5: // wildcard, then something appended
			parts[n-1] = wild
		}
		s := strings.Join(parts, ".")
		if sys == semver.PyPI {
			// PEP 440 patterns are written with "*" only (==1.2.*); an epoch
			// may precede the numbers.
			s = strings.NewReplacer("x", "*", "X", "*").Replace(s)
			if rapid.IntRange(0, 3).Draw(t, "epoch") == 0 {
				s = rapid.SampledFrom([]string{"1!", "0!", "2!"}).Draw(t, "ep") + s
			}
			return s
		}
		if sys == semver.NuGet {
			switch rapid.IntRange(0, 7).Draw(t, "nugetpre") {
			case 0:
				s += "-*"
			case 1:
				s += "-rc*"
			case 2:
				s += "-rc.*"
			}
		} else if rapid.IntRange(0, 5).Draw(t, "pre") == 0 {
			s += rapid.SampledFrom([]string{"-beta", "-0", "+b1"}).Draw(t, "presuffix")
		}
		return s
	})
}
