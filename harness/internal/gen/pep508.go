package gen

import (
	"strings"

	"pgregory.net/rapid"
)

var pepNames = []string{"requests", "Django", "zope.interface", "ruamel_yaml", "A", "a-b", "a_b", "a.b", "A--B", "foo__bar..baz", "x1", "Pillow", "typing-extensions", "backports.zoneinfo", "a-_.b", "Z9"}
var pepExtras = []string{"security", "socks", "Sec_ure", "a", "b", "test", "dev", "all", "x-y", "T1"}

func wsp(t *rapid.T, label string) string {
	return rapid.SampledFrom([]string{"", "", "", " ", "  ", "\t", " \t"}).Draw(t, label)
}

// MarkerVars are the PEP 508 environment variables the library knows.
var MarkerVars = []string{"python_version", "python_full_version", "os_name", "sys_platform", "platform_release", "platform_system", "platform_machine", "platform_python_implementation", "implementation_name", "implementation_version", "platform_version"}

var markerLiterals = []string{"3.9", "3.9.6", "3.10", "3", "3.8", "2.7", "3.9.0", "3.9.*", "linux", "linux2", "win32", "x86_64", "6.9.10", "5.0", "6.9.10-1rodete5-amd64", "cpython", "CPython", "posix", "nt", "Linux", "", "darwin", "lin", "3.9.6.post1", "4", "3.9rc1", "#1 SMP", "x86", "v3.8", "V3.9.6", "v3.9", " 3.9", "3.9 ", "3.09", "3.9.0.0"}

var markerOps = []string{"==", "!=", "<", "<=", ">", ">=", "~=", "===", "in", "not in"}

func quote(t *rapid.T, s string) string {
	if strings.ContainsRune(s, '"') {
		return "'" + s + "'"
	}
	if strings.ContainsRune(s, '\'') || rapid.Bool().Draw(t, "dq") {
		return "\"" + s + "\""
	}
	return "'" + s + "'"
}

type MarkerOpts struct {
	Extras   []string // extras that may be mentioned ("extra == 'x'")
	MaxDepth int
	// VarLitOnly restricts atoms to a variable compared with a literal (either
	// order), the domain of C16; without it variable-variable and
	// literal-literal atoms are generated too (C04 totality).
	VarLitOnly bool
}

func markerAtom(t *rapid.T, o MarkerOpts) string {
	if len(o.Extras) > 0 && rapid.IntRange(0, 5).Draw(t, "isextra") == 0 {
		e := rapid.SampledFrom(append(append([]string(nil), o.Extras...), "nope")).Draw(t, "extra")
		if rapid.IntRange(0, 4).Draw(t, "rev") == 0 {
			return quote(t, e) + wsp(t, "w1") + "==" + wsp(t, "w2") + "extra"
		}
		return "extra" + wsp(t, "w1") + "==" + wsp(t, "w2") + quote(t, e)
	}
	v := rapid.SampledFrom(MarkerVars).Draw(t, "var")
	op := rapid.SampledFrom(markerOps).Draw(t, "op")
	lit := rapid.SampledFrom(markerLiterals).Draw(t, "lit")
	sp1, sp2 := wsp(t, "w1"), wsp(t, "w2")
	if op == "in" || op == "not in" {
		if sp1 == "" {
			sp1 = " "
		}
		if sp2 == "" {
			sp2 = " "
		}
		if op == "not in" && rapid.IntRange(0, 4).Draw(t, "notsp") == 0 {
			op = "not  in"
		}
	}
	shape := rapid.IntRange(0, 9).Draw(t, "shape")
	if o.VarLitOnly && (shape == 1 || shape == 2) {
		shape = 3
	}
	switch shape {
	case 0: // literal on the left
		return quote(t, lit) + sp1 + op + sp2 + v
	case 1: // two variables
		return v + sp1 + op + sp2 + rapid.SampledFrom(MarkerVars).Draw(t, "var2")
	case 2: // two literals
		return quote(t, lit) + sp1 + op + sp2 + quote(t, rapid.SampledFrom(markerLiterals).Draw(t, "lit2"))
	}
	return v + sp1 + op + sp2 + quote(t, lit)
}

func markerExpr(t *rapid.T, o MarkerOpts, depth int) string {
	if depth >= o.MaxDepth || rapid.IntRange(0, 9).Draw(t, "leaf") < 5 {
		return markerAtom(t, o)
	}
	switch rapid.IntRange(0, 2).Draw(t, "kind") {
	case 0:
		return "(" + wsp(t, "pw") + markerExpr(t, o, depth+1) + wsp(t, "pw2") + ")"
	case 1:
		return markerExpr(t, o, depth+1) + " and " + markerExpr(t, o, depth+1)
	default:
		return markerExpr(t, o, depth+1) + " or " + markerExpr(t, o, depth+1)
	}
}

// Marker generates a PEP 508 marker expression.
func Marker(o MarkerOpts) *rapid.Generator[string] {
	if o.MaxDepth == 0 {
		o.MaxDepth = 3
	}
	return rapid.Custom(func(t *rapid.T) string {
		return markerExpr(t, o, 0)
	})
}

// PEP508Requirement generates a non-URL requirement string.
func PEP508Requirement() *rapid.Generator[string] {
	return rapid.Custom(func(t *rapid.T) string {
		var b strings.Builder
		b.WriteString(wsp(t, "lead"))
		b.WriteString(rapid.SampledFrom(pepNames).Draw(t, "name"))
		if rapid.IntRange(0, 9).Draw(t, "hasextras") < 4 {
			b.WriteString(wsp(t, "w1"))
			b.WriteByte('[')
			n := rapid.IntRange(0, 3).Draw(t, "nextras")
			for i := 0; i < n; i++ {
				if i > 0 {
					b.WriteString(wsp(t, "ew0") + "," + wsp(t, "ew1"))
				} else {
					b.WriteString(wsp(t, "ew2"))
				}
				b.WriteString(rapid.SampledFrom(pepExtras).Draw(t, "extra"))
			}
			b.WriteString(wsp(t, "ew3"))
			b.WriteByte(']')
		}
		if rapid.IntRange(0, 9).Draw(t, "hasspec") < 6 {
			b.WriteString(wsp(t, "w2"))
			spec := PyPISpecifier().Draw(t, "spec")
			if rapid.IntRange(0, 3).Draw(t, "paren") == 0 {
				b.WriteString("(" + wsp(t, "pw1") + spec + wsp(t, "pw2") + ")")
			} else {
				b.WriteString(spec)
			}
		}
		if rapid.IntRange(0, 9).Draw(t, "hasmarker") < 4 {
			b.WriteString(wsp(t, "w3"))
			b.WriteByte(';')
			b.WriteString(wsp(t, "w4"))
			b.WriteString(Marker(MarkerOpts{Extras: []string{"security", "test"}, MaxDepth: 2}).Draw(t, "marker"))
		}
		b.WriteString(wsp(t, "trail"))
		return b.String()
	})
}
