package gen

import (
	"deps.dev/util/semver"
	"fmt"
	"regexp"
	"strings"

	"pgregory.net/rapid"
)

// A Universe is a package ecosystem as a value: rendered to the repository's own
// schema text it loads with schema.New, so replays are readable.

type UReq struct {
	Name string `json:"name"`
	Req  string `json:"req"`
	Type string `json:"type,omitempty"` // dependency type in the schema's text form, e.g. `Opt`, `Scope peer`, `KnownAs x`
}

type UVer struct {
	Version string   `json:"version"`
	Attrs   []string `json:"attrs,omitempty"` // "Key value" pairs written as ATTR lines
	Reqs    []UReq   `json:"reqs,omitempty"`
}

type UPkg struct {
	Name     string `json:"name"`
	Versions []UVer `json:"versions"`
}

type Universe struct {
	System string `json:"system"` // npm | maven | pypi
	Pkgs   []UPkg `json:"pkgs"`
}

// Text renders the universe in the schema syntax.
func (u Universe) Text() string {
	var sb strings.Builder
	for _, p := range u.Pkgs {
		sb.WriteString(p.Name + "\n")
		for _, v := range p.Versions {
			sb.WriteString("\t" + v.Version + "\n")
			for _, a := range v.Attrs {
				sb.WriteString("\t\tATTR: " + a + "\n")
			}
			for _, r := range v.Reqs {
				sb.WriteString("\t\t")
				if r.Type != "" {
					sb.WriteString(r.Type + "|")
				}
				sb.WriteString(r.Name + "@" + r.Req + "\n")
			}
		}
	}
	return sb.String()
}

// Roots lists every (package, version).
func (u Universe) Roots() [][2]string {
	var out [][2]string
	for _, p := range u.Pkgs {
		if strings.Contains(p.Name, ">") {
			continue // a bundled (derived) package is not a root
		}
		for _, v := range p.Versions {
			out = append(out, [2]string{p.Name, v.Version})
		}
	}
	return out
}

func pickDistinct(t *rapid.T, pool []string, n int, label string) []string {
	if n > len(pool) {
		n = len(pool)
	}
	perm := rapid.Permutation(pool).Draw(t, label)
	return perm[:n]
}

func npkgs(t *rapid.T) int {
	if rapid.IntRange(0, 3).Draw(t, "small") == 0 {
		return rapid.IntRange(2, 4).Draw(t, "npkgsmall")
	}
	return rapid.IntRange(5, 12).Draw(t, "npkg")
}

// ---- npm ------------------------------------------------------------------------

var npmVersionPool = []string{"1.0.0", "1.1.0", "1.2.0", "2.0.0", "2.1.0", "1.0.0-beta.1", "3.0.0-rc.1", "0.9.0", "1.1.1"}
var npmRanges = []string{"^1.0.0", "~1.1.0", ">=1.0.0 <2.0.0", "1.x", "*", "1.0.0 - 1.2.0", "^1.0.0 || ^2.0.0", "<2", "1.1.0", "2.0.0", ">=2.0.0", "^2.0.0", "~1.0.0", "<=1.1.0", ">1.1.0", "^0.9.0", "1", ">=1.0.0-beta.1", "^3.0.0-rc.1", "=1.2.0", "~>1.1", "x", "*", "*", "*", ""}

type NPMOpts struct {
	Aliases bool
	// RealNameAliases lets an alias be the name of another real package (the
	// common use of aliases: "xavier": "npm:yvonne@^2"); repeated along a cycle
	// this can trigger the recorded non-termination, so the caller needs a
	// deadline on Resolve.
	RealNameAliases bool
	// Bundles gives some versions a bundled copy of one of their dependencies
	// (a derived package "pkg>version>dep" with DerivedFrom, required by the
	// bundling version next to a bundle-scoped requirement on the dependency).
	Bundles bool
	// Ties adds versions that differ only in build metadata or a leading v:
	// equal precedence, different strings (insertion-order sensitivity of
	// sorting shows only then).
	Ties bool
}

func NPMUniverse(o NPMOpts) *rapid.Generator[Universe] {
	return rapid.Custom(func(t *rapid.T) Universe {
		names := []string{"a", "b", "c", "d", "e", "f", "g", "h", "i", "j", "k", "l"}
		n := npkgs(t)
		u := Universe{System: "npm"}
		density := rapid.IntRange(1, 4).Draw(t, "density")
		// first pass: versions, so that requirements can aim at existing ones
		vlists := make([][]string, n)
		for i := 0; i < n; i++ {
			vlists[i] = pickDistinct(t, npmVersionPool, rapid.IntRange(1, 5).Draw(t, "nv"), "versions")
			if o.Ties && rapid.IntRange(0, 2).Draw(t, "ties") == 0 {
				base := vlists[i][len(vlists[i])-1]
				if !strings.ContainsAny(base, "+") {
					vlists[i] = append(vlists[i], base+"+build.1")
					if rapid.Bool().Draw(t, "ties2") {
						vlists[i] = append(vlists[i], base+"+build.2")
					}
				}
			}
		}
		aimed := func(target int) string {
			v := rapid.SampledFrom(vlists[target]).Draw(t, "aim")
			base := v
			if j := strings.IndexByte(base, '-'); j > 0 && rapid.Bool().Draw(t, "striptag") {
				base = base[:j]
			}
			return rapid.SampledFrom([]string{"^" + v, "~" + v, v, ">=" + v, "<=" + v, "^" + base, "~" + base, ">=" + base + " <" + nextMajor(base), "=" + v, base[:1] + ".x"}).Draw(t, "aimform")
		}
		for i := 0; i < n; i++ {
			p := UPkg{Name: names[i]}
			vs := vlists[i]
			tagged := -1
			if rapid.IntRange(0, 2).Draw(t, "hastag") == 0 {
				tagged = rapid.IntRange(0, len(vs)-1).Draw(t, "tagged")
			}
			decoy := -1
			if tagged >= 0 && len(vs) > 1 && rapid.IntRange(0, 2).Draw(t, "hasdecoy") == 0 {
				decoy = rapid.IntRange(0, len(vs)-1).Draw(t, "decoy")
			}
			for j, v := range vs {
				uv := UVer{Version: v}
				if j == tagged {
					uv.Attrs = append(uv.Attrs, "Tags "+rapid.SampledFrom([]string{"latest", "latest,next", "next"}).Draw(t, "tags"))
				} else if tagged >= 0 && j == decoy {
					// another version carries tags whose names merely contain a
					// dist-tag name (npm's own latest-6, next-7; v4-latest)
					uv.Attrs = append(uv.Attrs, "Tags "+rapid.SampledFrom([]string{"latest-1", "v4-latest", "next-7", "notlatest,beta", "latest-1,next-7"}).Draw(t, "decoytags"))
				}
				if rapid.IntRange(0, 6).Draw(t, "blocked") == 0 {
					uv.Attrs = append(uv.Attrs, "Blocked")
				}
				nr := rapid.IntRange(0, density).Draw(t, "nreq")
				used := map[string]bool{}
				for k := 0; k < nr; k++ {
					ti := rapid.IntRange(0, n-1).Draw(t, "target")
					r := UReq{Name: names[ti]}
					missing := rapid.IntRange(0, 19).Draw(t, "missing") == 0
					if missing {
						r.Name = "missing"
					}
					switch kk := rapid.IntRange(0, 19).Draw(t, "reqkind"); {
					case kk < 11 && !missing:
						r.Req = aimed(ti)
					case kk < 16:
						r.Req = rapid.SampledFrom(npmRanges).Draw(t, "range")
					case kk < 18:
						r.Req = rapid.SampledFrom([]string{"latest", "next", "beta"}).Draw(t, "tagreq")
					default:
						r.Req = rapid.SampledFrom([]string{"9.9.9", "^9", "not-a-range"}).Draw(t, "unsat")
					}
					switch tk := rapid.IntRange(0, 19).Draw(t, "type"); {
					case tk < 12:
					case tk < 14:
						r.Type = "Opt"
					case tk < 15:
						r.Type = "Dev"
					case tk < 16:
						r.Type = "Scope peer"
					case tk < 17:
						r.Type = "Scope bundle"
					case tk < 18:
						r.Type = "Opt Dev"
					default:
						// Aliased requirements only point "forward" (to a package
						// with a larger index) and use names no package has: a
						// dependency cycle through an alias that shadows a name
						// looked up later in the cycle makes the npm resolver nest
						// copies without end (recorded finding, C04); excluded by
						// construction so that the search continues.
						if o.Aliases && i < n-1 {
							ti = rapid.IntRange(i+1, n-1).Draw(t, "aliastarget")
							r.Name = names[ti]
							if rapid.Bool().Draw(t, "aimalias") {
								r.Req = aimed(ti)
							} else if rapid.IntRange(0, 3).Draw(t, "aliastag") == 0 {
								// "x": "npm:real@latest"
								r.Req = rapid.SampledFrom([]string{"latest", "next"}).Draw(t, "aliastagreq")
							}
							// The alias name is unique to the declaring version: the same
							// alias at two places of a dependency cycle (which may close
							// through plain, backward requirements) is what triggers the
							// non-termination.
							r.Type = fmt.Sprintf("KnownAs al%dv%d%s", i, len(p.Versions), rapid.SampledFrom([]string{"", "b"}).Draw(t, "alias"))
							if o.RealNameAliases && rapid.IntRange(0, 2).Draw(t, "realalias") == 0 {
								if k := rapid.IntRange(0, n-1).Draw(t, "realaliasname"); k != ti && k != i {
									r.Type = "KnownAs " + names[k]
								}
							}
						}
					}
					// package.json sections are maps keyed by the dependency name
					// (the alias if there is one): a name occurs once per section,
					// and an alias once per version.
					key := r.Name + "|" + r.Type
					depName := r.Name
					if strings.HasPrefix(r.Type, "KnownAs ") {
						depName = strings.TrimPrefix(r.Type, "KnownAs ")
						key = "alias|" + depName
					}
					// an alias may carry a real package's name: then that name cannot
					// also be a plain dependency of the same version (one key, one entry)
					if used[key] || (o.RealNameAliases && used["depname|"+depName]) {
						continue
					}
					used[key] = true
					used["depname|"+depName] = true
					uv.Reqs = append(uv.Reqs, r)
				}
				p.Versions = append(p.Versions, uv)
			}
			inheritReqs(t, &p)
			u.Pkgs = append(u.Pkgs, p)
		}
		// A dist-tag requirement that meets a copy installed under the same alias:
		// package 0 declares "alx": "npm:T@latest" and requires A, which declares
		// the same. (One alias name at two places can run into the recorded
		// non-termination when the universe closes a cycle through them; the
		// checks count that under their watchdog.)
		if o.RealNameAliases && n >= 3 && rapid.IntRange(0, 5).Draw(t, "aliastagshape") == 0 {
			a := rapid.IntRange(1, n-2).Draw(t, "aliastaga")
			ti := rapid.IntRange(a+1, n-1).Draw(t, "aliastagtarget")
			tag := rapid.SampledFrom([]string{"latest", "next"}).Draw(t, "aliastagname")
			tagged := false
			for _, v := range u.Pkgs[ti].Versions {
				for _, at := range v.Attrs {
					if strings.HasPrefix(at, "Tags ") && (strings.Contains(at, " "+tag) || strings.Contains(at, ","+tag)) {
						tagged = true
					}
				}
			}
			if !tagged {
				v := &u.Pkgs[ti].Versions[0]
				hasTags := false
				for i, at := range v.Attrs {
					if strings.HasPrefix(at, "Tags ") {
						v.Attrs[i] = at + "," + tag
						hasTags = true
					}
				}
				if !hasTags {
					v.Attrs = append(v.Attrs, "Tags "+tag)
				}
			}
			for vi := range u.Pkgs[a].Versions {
				v := &u.Pkgs[a].Versions[vi]
				v.Reqs = append(v.Reqs, UReq{Name: names[ti], Req: tag, Type: "KnownAs alx"})
			}
			v0 := &u.Pkgs[0].Versions[0]
			kept := v0.Reqs[:0:0]
			for _, r := range v0.Reqs {
				if r.Name != names[a] && !strings.Contains(r.Type, "KnownAs "+names[a]) {
					kept = append(kept, r)
				}
			}
			v0.Reqs = append(kept, UReq{Name: names[ti], Req: tag, Type: "KnownAs alx"}, UReq{Name: names[a], Req: "*"})
		}
		if o.Bundles {
			var derived []UPkg
			for pi := range u.Pkgs {
				p := &u.Pkgs[pi]
				for vi := range p.Versions {
					v := &p.Versions[vi]
					if rapid.IntRange(0, 5).Draw(t, "bundle") != 0 {
						continue
					}
					ti := rapid.IntRange(0, n-1).Draw(t, "bundletarget")
					if ti == pi {
						continue
					}
					q := names[ti]
					w := rapid.SampledFrom(vlists[ti]).Draw(t, "bundleversion")
					dn := p.Name + ">" + v.Version + ">" + q
					// the bundling version names the dependency in bundleDependencies
					// (a keyed attribute on the requirement) and requires the copy
					kept := v.Reqs[:0:0]
					for _, r := range v.Reqs {
						if r.Name != q {
							kept = append(kept, r)
						}
					}
					typ := rapid.SampledFrom([]string{"Scope bundled", "Scope bundled", "KnownAs bd" + fmt.Sprint(pi) + " Scope bundled"}).Draw(t, "bundletype")
					v.Reqs = append(kept, UReq{Name: q, Req: w, Type: typ}, UReq{Name: dn, Req: w})
					derived = append(derived, UPkg{Name: dn, Versions: []UVer{{Version: w, Attrs: []string{"DerivedFrom " + q}}}})
				}
			}
			u.Pkgs = append(u.Pkgs, derived...)
		}
		return u
	})
}

func nextMajor(v string) string {
	switch v[:1] {
	case "0":
		return "1.0.0"
	case "1":
		return "2.0.0"
	case "2":
		return "3.0.0"
	}
	return "4.0.0"
}

// ---- Maven ------------------------------------------------------------------------

var mavenVersionPool = []string{"1.0", "1.1", "1.2", "2.0", "2.1", "3.0", "1.0.1", "0.9"}
var mavenSoft = []string{"1.0", "1.1", "2.0", "3.0", "1.2", "0.9", "7.7"}
var mavenHard = []string{"[1.0,2.0)", "[1.1]", "(,2.0]", "[2.0,)", "[1.0,1.2]", "(1.0,3.0)", "[3.0]", "[1.1,)", "[0.9,1.0]", "[9.0,)", "[1.0,1.1],[2.0,)"}

type MavenUOpts struct {
	NoRanges bool
	// Ties adds a second spelling of a version with the same precedence
	// (1.0 next to 1.0.0), as Maven Central has them: the order of the two in
	// a listing must not depend on the order they were added in.
	Ties bool
}

func MavenUniverse(o MavenUOpts) *rapid.Generator[Universe] {
	return rapid.Custom(func(t *rapid.T) Universe {
		names := []string{"g:a", "g:b", "g:c", "h:d", "h:e", "h:f", "i:g", "i:h", "j:i", "j:j", "k:k", "k:l"}
		n := npkgs(t)
		u := Universe{System: "maven"}
		density := rapid.IntRange(1, 4).Draw(t, "density")
		exHeavy := rapid.IntRange(0, 2).Draw(t, "exheavy") == 0
		sloppy := rapid.IntRange(0, 3).Draw(t, "sloppy") == 0
		// mostly forward references (fewer cycles through the root, which the
		// resolver answers with an error when the versions differ)
		forward := rapid.IntRange(0, 3).Draw(t, "forward") > 0
		// first pass: versions, so that most requirements name existing ones
		vlists := make([][]string, n)
		for i := 0; i < n; i++ {
			vlists[i] = pickDistinct(t, mavenVersionPool, rapid.IntRange(1, 5).Draw(t, "nv"), "versions")
			if o.Ties && rapid.IntRange(0, 2).Draw(t, "ties") == 0 {
				base := vlists[i][len(vlists[i])-1]
				vlists[i] = append(vlists[i], base+".0")
				if rapid.Bool().Draw(t, "ties3") {
					vlists[i] = append(vlists[i], base+"-ga")
				}
			}
		}
		for i := 0; i < n; i++ {
			p := UPkg{Name: names[i]}
			vs := vlists[i]
			for _, v := range vs {
				uv := UVer{Version: v}
				nr := rapid.IntRange(0, density).Draw(t, "nreq")
				used := map[string]bool{}
				for k := 0; k < nr; k++ {
					ti := rapid.IntRange(0, n-1).Draw(t, "target")
					if forward && ti <= i && i < n-1 && rapid.IntRange(0, 4).Draw(t, "back") > 0 {
						ti = rapid.IntRange(i+1, n-1).Draw(t, "fwdtarget")
					}
					r := UReq{Name: names[ti]}
					// requirements on artifacts or versions that do not exist end most
					// resolutions in an error: three universes in four have (almost) none
					missing := rapid.IntRange(0, 39).Draw(t, "missing") == 0 && (sloppy || rapid.IntRange(0, 9).Draw(t, "missing2") == 0)
					if missing {
						r.Name = "z:missing"
					}
					existing := rapid.SampledFrom(vlists[ti]).Draw(t, "aim")
					switch {
					case !o.NoRanges && rapid.IntRange(0, 9).Draw(t, "hard") < 3:
						if rapid.Bool().Draw(t, "aimrange") {
							r.Req = rapid.SampledFrom([]string{"[" + existing + "]", "[" + existing + ",)", "(," + existing + "]", "[" + existing + ",9.0)", "[0.1," + existing + "]"}).Draw(t, "rangeform")
						} else {
							r.Req = rapid.SampledFrom(mavenHard).Draw(t, "range")
						}
					case rapid.IntRange(0, 19).Draw(t, "stray") == 0 && (sloppy || rapid.IntRange(0, 9).Draw(t, "stray2") == 0):
						r.Req = rapid.SampledFrom(mavenSoft).Draw(t, "soft")
					default:
						r.Req = existing
					}
					var parts []string
					tk := rapid.IntRange(0, 23).Draw(t, "type")
					if exHeavy && tk >= 8 && tk < 18 {
						tk = 22 // a third of the universes carry exclusions on half of their declarations
					}
					switch {
					case tk < 12:
					case tk < 14:
						parts = append(parts, "Test")
					case tk < 16:
						parts = append(parts, "Opt")
					case tk < 18:
						parts = append(parts, "Scope "+rapid.SampledFrom([]string{"provided", "runtime"}).Draw(t, "scope"))
					case tk < 20:
						parts = append(parts, "MavenArtifactType "+rapid.SampledFrom([]string{"war", "ear", "rar", "pom", "test-jar"}).Draw(t, "atype"))
					case tk < 21:
						parts = append(parts, "MavenClassifier "+rapid.SampledFrom([]string{"sources", "tests"}).Draw(t, "classifier"))
					default:
						var ex []string
						for e, ne := 0, rapid.IntRange(1, 2).Draw(t, "nex"); e < ne; e++ {
							tn := names[rapid.IntRange(0, n-1).Draw(t, "extarget")]
							ga := strings.SplitN(tn, ":", 2)
							ex = append(ex, rapid.SampledFrom([]string{tn, ga[0] + ":*", "*:" + ga[1], "*:*"}).Draw(t, "exform"))
						}
						parts = append(parts, "MavenExclusions "+strings.Join(ex, ","))
					}
					r.Type = strings.Join(parts, " ")
					key := r.Name + "|" + r.Type
					if used[key] {
						continue
					}
					used[key] = true
					uv.Reqs = append(uv.Reqs, r)
				}
				// dependencyManagement entries (only meaningful on a root)
				if rapid.IntRange(0, 3).Draw(t, "hasmgmt") == 0 {
					for k, nm := 0, rapid.IntRange(1, 2).Draw(t, "nmgmt"); k < nm; k++ {
						mi := rapid.IntRange(0, n-1).Draw(t, "mgtarget")
						tn := names[mi]
						key := tn + "|mgmt"
						if used[key] {
							continue
						}
						used[key] = true
						uv.Reqs = append(uv.Reqs, UReq{Name: tn, Req: rapid.SampledFrom(vlists[mi]).Draw(t, "mgver"), Type: "MavenDependencyOrigin management"})
					}
				}
				p.Versions = append(p.Versions, uv)
			}
			inheritReqs(t, &p)
			u.Pkgs = append(u.Pkgs, p)
		}
		aimExclusions(t, &u)
		if !o.NoRanges && rapid.IntRange(0, 4).Draw(t, "typedconflict") == 0 {
			typedConflict(t, &u)
		}
		return u
	})
}

// typedConflict plants the conflict "soft version first, a range that excludes
// it later" on an artifact key with a type or classifier (war/ear/rar are not
// traversed, test-jar and classifiers share the version node with the plain
// jar): one declaration names version V, another one, elsewhere, the range [W].
func typedConflict(t *rapid.T, u *Universe) {
	var multi []int
	for i, p := range u.Pkgs {
		if len(p.Versions) >= 2 {
			multi = append(multi, i)
		}
	}
	if len(multi) == 0 || len(u.Pkgs) < 3 {
		return
	}
	ti := multi[rapid.IntRange(0, len(multi)-1).Draw(t, "tctarget")]
	target := u.Pkgs[ti]
	vi := rapid.IntRange(0, len(target.Versions)-1).Draw(t, "tcv")
	wi := (vi + 1 + rapid.IntRange(0, len(target.Versions)-2).Draw(t, "tcw")) % len(target.Versions)
	typ := rapid.SampledFrom([]string{"MavenArtifactType war", "MavenArtifactType ear", "MavenArtifactType rar", "MavenArtifactType test-jar", "MavenClassifier tests"}).Draw(t, "tctype")
	var others []int
	for i := range u.Pkgs {
		if i != ti {
			others = append(others, i)
		}
	}
	ai := others[rapid.IntRange(0, len(others)-1).Draw(t, "tca")]
	bi := others[rapid.IntRange(0, len(others)-1).Draw(t, "tcb")]
	add := func(pi int, req string) {
		p := &u.Pkgs[pi]
		v := &p.Versions[rapid.IntRange(0, len(p.Versions)-1).Draw(t, "tcslot")]
		for _, r := range v.Reqs {
			if r.Name == target.Name && r.Type == typ {
				return
			}
		}
		v.Reqs = append(v.Reqs, UReq{Name: target.Name, Req: req, Type: typ})
	}
	add(ai, target.Versions[vi].Version)
	add(bi, "["+target.Versions[wi].Version+"]")
	// and something that requires both carriers
	ci := others[rapid.IntRange(0, len(others)-1).Draw(t, "tcc")]
	c := &u.Pkgs[ci].Versions[0]
	for _, pi := range []int{ai, bi} {
		if pi == ci {
			continue
		}
		have := false
		for _, r := range c.Reqs {
			have = have || r.Name == u.Pkgs[pi].Name
		}
		if !have {
			c.Reqs = append(c.Reqs, UReq{Name: u.Pkgs[pi].Name, Req: u.Pkgs[pi].Versions[0].Version})
		}
	}
}

// aimExclusions retargets most exclusions at a package that is actually
// reachable (one or two levels) below the dependency carrying the exclusion:
// an exclusion naming something that is not in the subtree has no effect.
func aimExclusions(t *rapid.T, u *Universe) {
	below := map[string][]string{}
	for _, p := range u.Pkgs {
		seen := map[string]bool{}
		for _, v := range p.Versions {
			for _, r := range v.Reqs {
				if !seen[r.Name] && !strings.Contains(r.Type, "management") {
					seen[r.Name] = true
					below[p.Name] = append(below[p.Name], r.Name)
				}
			}
		}
	}
	for pi := range u.Pkgs {
		for vi := range u.Pkgs[pi].Versions {
			reqs := u.Pkgs[pi].Versions[vi].Reqs
			for ri := range reqs {
				const key = "MavenExclusions "
				i := strings.Index(reqs[ri].Type, key)
				if i < 0 {
					continue
				}
				cands := append([]string(nil), below[reqs[ri].Name]...)
				for _, d := range below[reqs[ri].Name] {
					cands = append(cands, below[d]...)
				}
				if len(cands) == 0 || rapid.IntRange(0, 9).Draw(t, "aimex") >= 7 {
					continue
				}
				target := rapid.SampledFrom(cands).Draw(t, "aimextarget")
				rest := reqs[ri].Type[i+len(key):]
				if j := strings.IndexByte(rest, ','); j >= 0 {
					rest = rest[j:] // keep the other exclusions
				} else {
					rest = ""
				}
				reqs[ri].Type = reqs[ri].Type[:i] + key + target + rest
			}
		}
	}
}

// ---- PyPI ------------------------------------------------------------------------

var pypiVersionPool = []string{"1.0", "1.1", "1.2", "2.0", "2.1", "2.0a1", "3.0rc1", "0.9", "1.0.post1"}
var pypiSpecs = []string{">=1.0", "==1.1", "<2.0", "~=1.1", "!=1.0", ">=1.0,<2.0", "", "==2.*", ">1.0", "<=1.1", ">=2.0", "==1.0", ">=2.0a1", "<1.0", "!=1.1,>=1.0", "~=2.0", ">=3.0rc1", "==9.9", "<3"}

// PyMarker is a marker with its truth value in the library's fixed
// environment, known by construction.
type PyMarker struct {
	Text  string
	Truth string // "true" | "false" | "extra:<name>" (true iff that extra is requested)
}

var PyMarkers = []PyMarker{
	{`python_version >= "3"`, "true"},
	{`python_version < "3"`, "false"},
	{`sys_platform == "win32"`, "false"},
	{`os_name == "posix"`, "true"},
	{`python_version >= "3.6" and sys_platform == "linux"`, "true"},
	{`sys_platform == "darwin" or os_name == "nt"`, "false"},
	{`extra == "x"`, "extra:x"},
	{`extra == "y"`, "extra:y"},
	{`python_version >= "3" and extra == "x"`, "extra:x"},
	{`implementation_name == "cpython"`, "true"},
	{`python_full_version < "3.9.0"`, "false"},
}

// injectPyPIScenario overlays one of a few resolver stress shapes on a random
// universe, with roles assigned to random packages: an extra requested only
// after the package was pinned; the same with a conflict behind the extra that
// forces backtracking past the requester; a diamond conflict that forces a
// downgrade. The rest of the universe stays random, so the shapes occur inside
// arbitrary contexts rather than as fixed examples.
func injectPyPIScenario(t *rapid.T, u *Universe) {
	idx := rapid.Permutation(seqInts(len(u.Pkgs))).Draw(t, "roles")
	P, R, Z, Q, root := &u.Pkgs[idx[0]], &u.Pkgs[idx[1]], &u.Pkgs[idx[2]], &u.Pkgs[idx[3]], &u.Pkgs[idx[4]]
	set := func(v *UVer, target, spec, typ string) {
		for i := range v.Reqs {
			if v.Reqs[i].Name == target {
				v.Reqs[i].Req, v.Reqs[i].Type = spec, typ
				return
			}
		}
		v.Reqs = append(v.Reqs, UReq{Name: target, Req: spec, Type: typ})
	}
	hi := func(p *UPkg) *UVer { return &p.Versions[len(p.Versions)-1] }
	topOf := func(p *UPkg) int {
		top := 0
		for i := range p.Versions {
			if semver.PyPI.Compare(p.Versions[i].Version, p.Versions[top].Version) > 0 {
				top = i
			}
		}
		return top
	}
	switch rapid.IntRange(0, 6).Draw(t, "scenariokind") {
	case 6: // re-pins in a chain: Z pushes P down, the lower P pushes R down, R asks P for the extra that guards Z
		if len(P.Versions) >= 2 && len(R.Versions) >= 2 {
			tp, tr := topOf(P), topOf(R)
			for i := range root.Versions {
				set(&root.Versions[i], P.Name, "", "")
				set(&root.Versions[i], R.Name, "", "")
			}
			for i := range P.Versions {
				set(&P.Versions[i], Z.Name, "", `Environment "extra == \"x\""`)
				if i != tp {
					set(&P.Versions[i], R.Name, "!="+R.Versions[tr].Version, "")
				}
			}
			for i := range Z.Versions {
				set(&Z.Versions[i], P.Name, "!="+P.Versions[tp].Version, "")
			}
			for i := range R.Versions {
				set(&R.Versions[i], P.Name, "", "EnabledDependencies x")
			}
		}
	case 5: // a candidate that is tried and dropped names a prerelease of Z
		if len(P.Versions) >= 2 {
			top := 0
			for i := range P.Versions {
				if semver.PyPI.Compare(P.Versions[i].Version, P.Versions[top].Version) > 0 {
					top = i
				}
			}
			hasPre := false
			for _, v := range Z.Versions {
				hasPre = hasPre || v.Version == "9.0b1"
			}
			if !hasPre {
				Z.Versions = append(Z.Versions, UVer{Version: "9.0b1"})
			}
			for i := range root.Versions {
				set(&root.Versions[i], P.Name, "", "")
				set(&root.Versions[i], R.Name, "", "")
				set(&root.Versions[i], Z.Name, "", "")
			}
			// the newest P cannot be pinned: one of its requirements has nowhere to go
			set(&P.Versions[top], Z.Name, "<=9.0b1", "")
			set(&P.Versions[top], Q.Name, "==99", "")
			for i := range R.Versions {
				set(&R.Versions[i], Z.Name, ">=0.1", "")
			}
		}
	case 4: // a downgrade that leaves a stale parent in front of a two-cycle
		if len(P.Versions) >= 2 {
			for i := range root.Versions {
				set(&root.Versions[i], P.Name, "", "")
				set(&root.Versions[i], R.Name, "", "")
			}
			// versions are listed in no particular order: constrain by exclusion
			for i := range P.Versions {
				set(&P.Versions[i], Z.Name, "", "")
			}
			for i := range R.Versions {
				set(&R.Versions[i], P.Name, "!="+P.Versions[0].Version, "")
				set(&R.Versions[i], Z.Name, "", "")
			}
			for i := range Z.Versions {
				set(&Z.Versions[i], Q.Name, "", "")
			}
			for i := range Q.Versions {
				set(&Q.Versions[i], Z.Name, "", "")
			}
		}
	case 3: // a cycle back to the root package, one requirement naming a prerelease
		for i := range root.Versions {
			set(&root.Versions[i], P.Name, "", "")
			set(&root.Versions[i], R.Name, "", "")
		}
		for i := range P.Versions {
			set(&P.Versions[i], root.Name, rapid.SampledFrom([]string{">=0.1a1", ">=1.0a1", ">=0.5.dev1", "<9.0rc1"}).Draw(t, "prespec"), "")
		}
		for i := range R.Versions {
			set(&R.Versions[i], root.Name, rapid.SampledFrom([]string{"", ">=0.1", ">1.0", "<9", ">=1.1"}).Draw(t, "plainspec"), "")
		}
	case 0, 1: // late extra (1: with a conflict behind it)
		for i := range root.Versions {
			set(&root.Versions[i], P.Name, "", "")
			set(&root.Versions[i], R.Name, "", "")
		}
		for i := range R.Versions {
			set(&R.Versions[i], P.Name, "", "EnabledDependencies x")
		}
		for i := range P.Versions {
			set(&P.Versions[i], Z.Name, "", `Environment "extra == \"x\""`)
		}
		if len(Q.Versions) >= 2 && len(R.Versions) >= 2 {
			// versions are listed in no particular order; pin two different ones
			set(hi(R), Q.Name, "=="+Q.Versions[0].Version, "")
			for i := range Z.Versions {
				set(&Z.Versions[i], Q.Name, "=="+Q.Versions[1].Version, "")
			}
		}
	case 2: // diamond conflict
		if len(Q.Versions) >= 2 {
			for i := range root.Versions {
				set(&root.Versions[i], P.Name, "", "")
				set(&root.Versions[i], R.Name, "", "")
			}
			for i := range P.Versions {
				set(&P.Versions[i], Q.Name, "=="+Q.Versions[1].Version, "")
			}
			set(hi(P), Q.Name, "=="+Q.Versions[0].Version, "")
			for i := range R.Versions {
				set(&R.Versions[i], Q.Name, "=="+Q.Versions[1].Version, "")
			}
		}
	}
}

func seqInts(n int) []int {
	s := make([]int, n)
	for i := range s {
		s[i] = i
	}
	return s
}

// inheritReqs makes successive versions of a package resemble each other, as
// releases of a real package do: about half of the versions after the first
// start from the previous version's requirement list (textually identical
// requirements across versions), sometimes with one requirement dropped or its
// range replaced by another requirement's.
func inheritReqs(t *rapid.T, p *UPkg) {
	for j := 1; j < len(p.Versions); j++ {
		if rapid.IntRange(0, 1).Draw(t, "inherit") == 0 {
			continue
		}
		prev := p.Versions[j-1].Reqs
		if len(prev) == 0 {
			continue
		}
		own := p.Versions[j].Reqs
		reqs := append([]UReq(nil), prev...)
		switch rapid.IntRange(0, 5).Draw(t, "inheritmut") {
		case 0:
			k := rapid.IntRange(0, len(reqs)-1).Draw(t, "dropreq")
			reqs = append(reqs[:k], reqs[k+1:]...)
		case 1:
			if len(own) > 0 {
				k := rapid.IntRange(0, len(reqs)-1).Draw(t, "changereq")
				reqs[k].Req = own[0].Req
			}
		}
		// alias names stay unique to the declaring version (see NPMUniverse)
		for k := range reqs {
			if i := strings.Index(reqs[k].Type, "KnownAs al"); i >= 0 {
				reqs[k].Type = aliasVersionRE.ReplaceAllString(reqs[k].Type, fmt.Sprintf("${1}v%d", j))
			}
		}
		p.Versions[j].Reqs = reqs
	}
}

var aliasVersionRE = regexp.MustCompile(`(KnownAs al[0-9]+)v[0-9]+`)

// PyPIUniverseTies is PyPIUniverse with a second spelling of some versions
// (1.0 next to 1.0.0: equal under PEP 440, distinct as keys).
func PyPIUniverseTies() *rapid.Generator[Universe] {
	return rapid.Custom(func(t *rapid.T) Universe {
		u := PyPIUniverse().Draw(t, "base")
		for i := range u.Pkgs {
			if rapid.IntRange(0, 2).Draw(t, "ties") != 0 {
				continue
			}
			last := u.Pkgs[i].Versions[len(u.Pkgs[i].Versions)-1]
			if strings.ContainsAny(last.Version, "abcdefghijklmnopqrstuvwxyz") {
				continue
			}
			twin := last
			twin.Version = last.Version + ".0"
			u.Pkgs[i].Versions = append(u.Pkgs[i].Versions, twin)
		}
		return u
	})
}

func PyPIUniverse() *rapid.Generator[Universe] {
	return rapid.Custom(func(t *rapid.T) Universe {
		names := []string{"a", "b", "c", "d", "e", "f", "g", "h", "i", "j", "k", "l"}
		n := npkgs(t)
		u := Universe{System: "pypi"}
		density := rapid.IntRange(1, 3).Draw(t, "density")
		extrasHeavy := rapid.IntRange(0, 3).Draw(t, "extrasheavy") == 0
		for i := 0; i < n; i++ {
			p := UPkg{Name: names[i]}
			vs := pickDistinct(t, pypiVersionPool, rapid.IntRange(1, 5).Draw(t, "nv"), "versions")
			for _, v := range vs {
				uv := UVer{Version: v}
				targets := pickDistinct(t, append(append([]string(nil), names[:n]...), "missing"), rapid.IntRange(0, density).Draw(t, "nreq"), "targets")
				for _, tn := range targets {
					if tn == "missing" && rapid.IntRange(0, 3).Draw(t, "keepmissing") > 0 {
						continue
					}
					r := UReq{Name: tn, Req: rapid.SampledFrom(pypiSpecs).Draw(t, "spec")}
					var parts []string
					if extrasHeavy {
						// a quarter of the universes: extras requested and extra-guarded
						// requirements everywhere, pinned specifiers (conflicts, backtracking)
						if rapid.IntRange(0, 9).Draw(t, "pin") < 5 {
							r.Req = rapid.SampledFrom([]string{"==1.0", "==1.1", "==2.0", "==1.2", "<2.0", ">=2.0"}).Draw(t, "pinspec")
						}
						if rapid.IntRange(0, 9).Draw(t, "hasmarker") < 5 {
							m := rapid.SampledFrom([]PyMarker{PyMarkers[6], PyMarkers[7], PyMarkers[8], PyMarkers[6]}).Draw(t, "marker")
							parts = append(parts, fmt.Sprintf("Environment %q", m.Text))
						}
						if rapid.IntRange(0, 9).Draw(t, "hasextras") < 5 {
							parts = append(parts, "EnabledDependencies "+rapid.SampledFrom([]string{"x", "x", "y", "x,y"}).Draw(t, "extras"))
						}
					} else {
						if rapid.IntRange(0, 9).Draw(t, "hasmarker") < 3 {
							m := rapid.SampledFrom(PyMarkers).Draw(t, "marker")
							parts = append(parts, fmt.Sprintf("Environment %q", m.Text))
						}
						if rapid.IntRange(0, 9).Draw(t, "hasextras") < 2 {
							parts = append(parts, "EnabledDependencies "+rapid.SampledFrom([]string{"x", "y", "x,y"}).Draw(t, "extras"))
						}
					}
					r.Type = strings.Join(parts, " ")
					uv.Reqs = append(uv.Reqs, r)
				}
				p.Versions = append(p.Versions, uv)
			}
			inheritReqs(t, &p)
			u.Pkgs = append(u.Pkgs, p)
		}
		if len(u.Pkgs) >= 5 && rapid.IntRange(0, 7).Draw(t, "scenario") < 2 {
			injectPyPIScenario(t, &u)
		}
		return u
	})
}
