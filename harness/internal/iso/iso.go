// Package iso computes a canonical form of a small rooted, node- and
// edge-labelled directed multigraph: colour refinement plus
// individualise-and-refine with full backtracking. Two graphs are isomorphic
// (root to root, labels preserved, parallel edges counted) iff their
// canonical strings are equal. It is the harness's own yardstick and does not
// use resolve.Graph.Canon.
package iso

import (
	"fmt"
	"hash/fnv"
	"sort"
	"strings"

	"deps.dev/util/resolve"
)

type Edge struct {
	From, To int
	Label    string
}

type Graph struct {
	Labels []string // node labels; node 0 is the root
	Edges  []Edge
	Extra  string // graph-level label (e.g. Graph.Error)
}

func h(parts ...string) uint64 {
	f := fnv.New64a()
	for _, p := range parts {
		f.Write([]byte(p))
		f.Write([]byte{0})
	}
	return f.Sum64()
}

// refine runs colour refinement until the partition is stable and returns
// colours normalised to ranks (0..k-1) ordered by a label-independent key.
func (g *Graph) refine(col []uint64) []uint64 {
	n := len(g.Labels)
	out := make([][]string, n)
	classes := countDistinct(col)
	for iter := 0; iter < n+2; iter++ {
		for i := range out {
			out[i] = out[i][:0]
		}
		for _, e := range g.Edges {
			out[e.From] = append(out[e.From], fmt.Sprintf("o|%s|%x", e.Label, col[e.To]))
			out[e.To] = append(out[e.To], fmt.Sprintf("i|%s|%x", e.Label, col[e.From]))
		}
		next := make([]uint64, n)
		for i := 0; i < n; i++ {
			sort.Strings(out[i])
			next[i] = h(fmt.Sprintf("%x", col[i]), strings.Join(out[i], ";"))
		}
		nc := countDistinct(next)
		col = next
		if nc == classes {
			break
		}
		classes = nc
	}
	return col
}

func countDistinct(c []uint64) int {
	m := map[uint64]bool{}
	for _, x := range c {
		m[x] = true
	}
	return len(m)
}

// Canon returns the canonical string, or "" if the search budget is exceeded
// (highly symmetric graph); callers treat "" as inconclusive.
func (g *Graph) Canon() string {
	n := len(g.Labels)
	col := make([]uint64, n)
	for i, l := range g.Labels {
		root := "n"
		if i == 0 {
			root = "r"
		}
		col[i] = h(root, l)
	}
	budget := 20000
	best := ""
	var search func(col []uint64)
	search = func(col []uint64) {
		if budget <= 0 {
			return
		}
		budget--
		col = g.refine(col)
		// find the first non-singleton cell (by smallest colour value)
		cells := map[uint64][]int{}
		for i, c := range col {
			cells[c] = append(cells[c], i)
		}
		var keys []uint64
		for c, vs := range cells {
			if len(vs) > 1 {
				keys = append(keys, c)
			}
		}
		if len(keys) == 0 {
			s := g.emit(col)
			if best == "" || s < best {
				best = s
			}
			return
		}
		sort.Slice(keys, func(i, j int) bool { return keys[i] < keys[j] })
		cell := cells[keys[0]]
		for _, v := range cell {
			c2 := append([]uint64(nil), col...)
			c2[v] = h("ind", fmt.Sprintf("%x", col[v]))
			search(c2)
		}
	}
	search(col)
	if budget <= 0 {
		return ""
	}
	return best
}

// emit prints the graph with nodes ordered by (discrete) colour.
func (g *Graph) emit(col []uint64) string {
	n := len(g.Labels)
	order := make([]int, n)
	for i := range order {
		order[i] = i
	}
	sort.Slice(order, func(a, b int) bool {
		// root first, then by colour
		if (order[a] == 0) != (order[b] == 0) {
			return order[a] == 0
		}
		return col[order[a]] < col[order[b]]
	})
	pos := make([]int, n)
	for p, v := range order {
		pos[v] = p
	}
	var sb strings.Builder
	sb.WriteString("X:" + g.Extra + "\n")
	for p, v := range order {
		fmt.Fprintf(&sb, "N%d:%s\n", p, g.Labels[v])
	}
	es := make([]string, len(g.Edges))
	for i, e := range g.Edges {
		es[i] = fmt.Sprintf("E%04d>%04d:%s", pos[e.From], pos[e.To], e.Label)
	}
	sort.Strings(es)
	sb.WriteString(strings.Join(es, "\n"))
	return sb.String()
}

// NodeLabel renders a resolve node (version key and sorted errors).
func NodeLabel(n resolve.Node) string {
	errs := make([]string, len(n.Errors))
	for i, e := range n.Errors {
		errs[i] = e.Req.String() + "=" + e.Error
	}
	sort.Strings(errs)
	return n.Version.String() + "{" + strings.Join(errs, ";") + "}"
}

// FromResolve converts a resolve.Graph (Duration ignored).
func FromResolve(rg *resolve.Graph) *Graph {
	g := &Graph{Extra: rg.Error}
	for _, n := range rg.Nodes {
		g.Labels = append(g.Labels, NodeLabel(n))
	}
	for _, e := range rg.Edges {
		g.Edges = append(g.Edges, Edge{From: int(e.From), To: int(e.To), Label: e.Requirement + "|" + e.Type.String()})
	}
	return g
}
