// Package refmodel holds harness reference models of this library's documented
// list behaviour (used by C12 and C14). They are written from the doc comments
// of resolve.SortVersions / SortDependencies / MatchRequirement and from the
// property statements, not from the implementation.
package refmodel

import (
	"sort"
	"strings"

	"deps.dev/util/resolve"
	"deps.dev/util/resolve/dep"
	"deps.dev/util/resolve/version"
	"deps.dev/util/semver"
)

// Rec is a concrete version record: its string and its tags.
type Rec struct {
	Version string
	Tags    string // comma separated, "" if none
	// Other is an attribute that has no bearing on order or matching
	// ("Blocked", "Redirect", "Features" or ""); the model ignores it.
	Other string `json:",omitempty"`
}

func hasTag(tags, tag string) bool {
	for _, t := range strings.Split(tags, ",") {
		if t == tag {
			return true
		}
	}
	return false
}

// Less is the documented ascending order for one system. For NPM: parsable
// versions first in semver order, ties broken lexically; unparsable versions
// after them, lexically. For other systems: semver order where both parse.
// eq reports that the two are in the same equivalence class (relative order
// unspecified).
func cmpRec(sys semver.System, a, b Rec) (c int, eq bool) {
	va, ea := sys.Parse(a.Version)
	vb, eb := sys.Parse(b.Version)
	if sys == semver.NPM {
		switch {
		case ea == nil && eb != nil:
			return -1, false
		case ea != nil && eb == nil:
			return 1, false
		case ea == nil && eb == nil:
			if c := va.Compare(vb); c != 0 {
				return c, false
			}
		}
		c := strings.Compare(a.Version, b.Version)
		return c, c == 0
	}
	if ea != nil || eb != nil {
		c := strings.Compare(a.Version, b.Version)
		return c, c == 0
	}
	c = va.Compare(vb)
	return c, c == 0
}

// CountLatest returns how many records carry the tag "latest".
func CountLatest(recs []Rec) int {
	n := 0
	for _, r := range recs {
		if hasTag(r.Tags, "latest") {
			n++
		}
	}
	return n
}

// SortedClasses returns the expected listing as a sequence of equivalence
// classes (each class sorted by string for comparison purposes).
func SortedClasses(sys semver.System, recs []Rec) [][]string {
	rs := append([]Rec(nil), recs...)
	sort.SliceStable(rs, func(i, j int) bool {
		c, _ := cmpRec(sys, rs[i], rs[j])
		return c < 0
	})
	// NPM: the version tagged latest goes last unless it is a prerelease
	// while releases exist.
	if sys == semver.NPM {
		latest := -1
		latestPre := false
		allPre := true
		for i, r := range rs {
			v, err := sys.Parse(r.Version)
			if err != nil || !v.IsPrerelease() {
				allPre = false
			}
			if hasTag(r.Tags, "latest") {
				latest = i
				latestPre = err == nil && v.IsPrerelease()
			}
		}
		if latest >= 0 && !(latestPre && !allPre) {
			l := rs[latest]
			rs = append(append(rs[:latest:latest], rs[latest+1:]...), l)
			// the moved element is its own class at the end
			var out [][]string
			out = classes(sys, rs[:len(rs)-1])
			return append(out, []string{l.Version})
		}
	}
	return classes(sys, rs)
}

func classes(sys semver.System, rs []Rec) [][]string {
	var out [][]string
	for i := 0; i < len(rs); {
		j := i + 1
		for j < len(rs) {
			if _, eq := cmpRec(sys, rs[i], rs[j]); !eq {
				break
			}
			j++
		}
		var cl []string
		for _, r := range rs[i:j] {
			cl = append(cl, r.Version)
		}
		sort.Strings(cl)
		out = append(out, cl)
		i = j
	}
	return out
}

// SameClasses reports whether the observed sequence is one of the orders the
// class sequence allows.
func SameClasses(observed []string, want [][]string) bool {
	i := 0
	for _, cl := range want {
		if i+len(cl) > len(observed) {
			return false
		}
		got := append([]string(nil), observed[i:i+len(cl)]...)
		sort.Strings(got)
		for k := range cl {
			if got[k] != cl[k] {
				return false
			}
		}
		i += len(cl)
	}
	return i == len(observed)
}

// Matches is the documented meaning of a requirement over one record:
// a range selects by Constraint.Match (C03 owns the correctness of Match);
// an npm requirement that is not a range selects the version whose string or
// tag equals it (the first in listing order); other systems fall back to
// string equality.
func Matches(sys semver.System, req string, listing []Rec) []string {
	c, err := sys.ParseConstraint(req)
	if err != nil {
		if sys == semver.NPM {
			for _, r := range listing {
				if r.Version == req || hasTag(r.Tags, req) {
					return []string{r.Version}
				}
			}
			return nil
		}
		var out []string
		for _, r := range listing {
			if r.Version == req {
				out = append(out, r.Version)
			}
		}
		return out
	}
	var out []string
	for _, r := range listing {
		if c.Match(r.Version) {
			out = append(out, r.Version)
		}
	}
	return out
}

// DepLess is the documented npm resolution order of requirements
// (SortDependencies): dev dependencies alone at the end; otherwise by
// lower-cased name (the KnownAs alias if present); when the lower-cased names
// tie, the lower-case spelling first.
func DepCompare(a, b resolve.RequirementVersion) int {
	dev := dep.NewType(dep.Dev)
	da, db := a.Type.Equal(dev), b.Type.Equal(dev)
	if da != db {
		if db {
			return -1
		}
		return 1
	}
	na, nb := a.Name, b.Name
	if n, ok := a.Type.GetAttr(dep.KnownAs); ok {
		na = n
	}
	if n, ok := b.Type.GetAttr(dep.KnownAs); ok {
		nb = n
	}
	la, lb := strings.ToLower(na), strings.ToLower(nb)
	if la != lb {
		return strings.Compare(la, lb)
	}
	return -strings.Compare(na, nb)
}

// RecOf extracts the record of a resolve.Version.
func RecOf(v resolve.Version) Rec {
	tags, _ := v.GetAttr(version.Tags)
	return Rec{Version: v.Version, Tags: tags}
}
