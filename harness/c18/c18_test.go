// C18 — the API-backed client maps bundles and aliases consistently, race-free.
package c18

import (
	"context"
	"encoding/json"
	"errors"
	"fmt"
	"os"
	"sort"
	"strings"
	"sync"
	"testing"
	"time"

	pb "deps.dev/api/v3"
	"deps.dev/util/resolve"
	"deps.dev/util/resolve/dep"
	npmresolve "deps.dev/util/resolve/npm"
	"deps.dev/util/resolve/verifh/internal/ev"
	"deps.dev/util/resolve/verifh/internal/iso"
	"deps.dev/util/resolve/verifh/internal/known"
	"deps.dev/util/resolve/version"
	"google.golang.org/grpc"
	"google.golang.org/grpc/codes"
	"google.golang.org/grpc/status"
	"pgregory.net/rapid"
)

var rec = ev.New("C18")
var kf *known.File
var watchdog = 5 * time.Second
var raceMode = os.Getenv("VERIF_RACE") != ""

func TestMain(m *testing.M) {
	kf, _ = known.Load(ev.KnownFile())
	rec.Rule("generated npm registries served by an in-process fake Insights service (no sockets): packages incl. scoped names (@s/n), versions listed in shuffled order with is_default marks, requirements in all four package.json sections plus bundleDependencies, aliases npm:real@range incl. scoped real names, bundled trees to depth 3 (node_modules/a/node_modules/b paths, bundled copies installed under an alias, bundled packages unknown to the registry); oracle (1) structural: after Requirements(v) every bundled entry is a package with the mangled name, exactly one concrete version with DerivedFrom, required by its bundling parent with a requirement MatchingVersions resolves to exactly that version, and Version/Versions/Requirements/MatchingVersions agree; aliases become requirements on the real name carrying KnownAs; (2) differential: the same data loaded into a LocalClient by the harness (from the generated model, not through the APIClient) resolves with the npm resolver to an isomorphic graph; (3) up to 16 goroutines resolving through one APIClient in a -race binary: no race report and every graph equals the sequential one. One evaluation = one (registry, root). Non-trivial: the root's response has a nested bundle or an alias on a scoped name. Distinct = distinct (registry, root). The four calls must also agree on a version a bundled package does not have (not found / no match); an alias may be the package's own name.")
	ev.Main(m, rec)
}

// ---- registry model ----------------------------------------------------------

type nDep struct {
	Name string `json:"name"` // key in package.json (the alias, if aliased)
	Req  string `json:"req"`  // value in package.json ("npm:real@range" if aliased)
}

type nDeps struct {
	Deps   []nDep   `json:"deps,omitempty"`
	Dev    []nDep   `json:"dev,omitempty"`
	Opt    []nDep   `json:"opt,omitempty"`
	Peer   []nDep   `json:"peer,omitempty"`
	Bundle []string `json:"bundle,omitempty"`
}

type nBundle struct {
	Path    string `json:"path"`
	Name    string `json:"name"`
	Version string `json:"version"`
	D       nDeps  `json:"d"`
}

type nVer struct {
	Version string    `json:"version"`
	Default bool      `json:"default,omitempty"`
	D       nDeps     `json:"d"`
	Bundled []nBundle `json:"bundled,omitempty"`
}

type nPkg struct {
	Name     string `json:"name"`
	Versions []nVer `json:"versions"` // in the order the service lists them
}

type registry struct {
	Pkgs []nPkg `json:"pkgs"`
}

// ---- fake Insights service -----------------------------------------------------

type fake struct {
	pb.InsightsClient
	r     registry
	calls int64
	mu    sync.Mutex
}

func (f *fake) find(name, ver string) (*nPkg, *nVer) {
	for i := range f.r.Pkgs {
		if f.r.Pkgs[i].Name != name {
			continue
		}
		p := &f.r.Pkgs[i]
		for j := range p.Versions {
			if p.Versions[j].Version == ver {
				return p, &p.Versions[j]
			}
		}
		return p, nil
	}
	return nil, nil
}

func (f *fake) GetPackage(ctx context.Context, r *pb.GetPackageRequest, _ ...grpc.CallOption) (*pb.Package, error) {
	p, _ := f.find(r.PackageKey.Name, "")
	if p == nil {
		return nil, status.Error(codes.NotFound, "no such package")
	}
	out := &pb.Package{PackageKey: r.PackageKey}
	for _, v := range p.Versions {
		out.Versions = append(out.Versions, &pb.Package_Version{VersionKey: &pb.VersionKey{System: pb.System_NPM, Name: p.Name, Version: v.Version}, IsDefault: v.Default})
	}
	return out, nil
}

func (f *fake) GetVersion(ctx context.Context, r *pb.GetVersionRequest, _ ...grpc.CallOption) (*pb.Version, error) {
	_, v := f.find(r.VersionKey.Name, r.VersionKey.Version)
	if v == nil {
		return nil, status.Error(codes.NotFound, "no such version")
	}
	return &pb.Version{VersionKey: r.VersionKey, IsDefault: v.Default}, nil
}

func pbDeps(d nDeps) *pb.Requirements_NPM_Dependencies {
	conv := func(ds []nDep) []*pb.Requirements_NPM_Dependencies_Dependency {
		var out []*pb.Requirements_NPM_Dependencies_Dependency
		for _, x := range ds {
			out = append(out, &pb.Requirements_NPM_Dependencies_Dependency{Name: x.Name, Requirement: x.Req})
		}
		return out
	}
	return &pb.Requirements_NPM_Dependencies{Dependencies: conv(d.Deps), DevDependencies: conv(d.Dev), OptionalDependencies: conv(d.Opt), PeerDependencies: conv(d.Peer), BundleDependencies: append([]string(nil), d.Bundle...)}
}

func (f *fake) GetRequirements(ctx context.Context, r *pb.GetRequirementsRequest, _ ...grpc.CallOption) (*pb.Requirements, error) {
	_, v := f.find(r.VersionKey.Name, r.VersionKey.Version)
	if v == nil {
		return nil, status.Error(codes.NotFound, "no such version")
	}
	out := &pb.Requirements_NPM{Dependencies: pbDeps(v.D)}
	for _, b := range v.Bundled {
		pbb := &pb.Requirements_NPM_Bundle{Path: b.Path, Name: b.Name, Version: b.Version}
		// a bundled package.json without dependencies comes without the message
		if len(b.D.Deps)+len(b.D.Dev)+len(b.D.Opt)+len(b.D.Peer)+len(b.D.Bundle) > 0 {
			pbb.Dependencies = pbDeps(b.D)
		}
		out.Bundled = append(out.Bundled, pbb)
	}
	return &pb.Requirements{Npm: out}, nil
}

// ---- expected mapping (from the documentation of the API client) -----------------

func vkC(name, ver string) resolve.VersionKey {
	return resolve.VersionKey{PackageKey: resolve.PackageKey{System: resolve.NPM, Name: name}, VersionType: resolve.Concrete, Version: ver}
}

func flatten(d nDeps) []resolve.RequirementVersion {
	var out []resolve.RequirementVersion
	add := func(ds []nDep, mk func() dep.Type) {
		for _, x := range ds {
			t := mk()
			name, req := x.Name, x.Req
			if rest, ok := strings.CutPrefix(x.Req, "npm:"); ok {
				t.AddAttr(dep.KnownAs, x.Name)
				if i := strings.LastIndex(rest, "@"); i >= 0 {
					name, req = rest[:i], rest[i+1:]
				}
			}
			out = append(out, resolve.RequirementVersion{VersionKey: resolve.VersionKey{PackageKey: resolve.PackageKey{System: resolve.NPM, Name: name}, VersionType: resolve.Requirement, Version: req}, Type: t})
		}
	}
	add(d.Deps, func() dep.Type { return dep.NewType() })
	add(d.Dev, func() dep.Type { return dep.NewType(dep.Dev) })
	add(d.Opt, func() dep.Type { return dep.NewType(dep.Opt) })
	add(d.Peer, func() dep.Type { t := dep.NewType(); t.AddAttr(dep.Scope, "peer"); return t })
	for _, n := range d.Bundle {
		t := dep.NewType()
		t.AddAttr(dep.Scope, "bundle")
		out = append(out, resolve.RequirementVersion{VersionKey: resolve.VersionKey{PackageKey: resolve.PackageKey{System: resolve.NPM, Name: n}, VersionType: resolve.Requirement, Version: "*"}, Type: t})
	}
	return out
}

func pathPkgs(path string) []string {
	return strings.Split(strings.TrimPrefix(path, "node_modules/"), "/node_modules/")
}

func mangle(root resolve.VersionKey, pkgs []string) string {
	return root.Name + ">" + root.Version + ">" + strings.Join(pkgs, ">")
}

type derived struct {
	name    string // mangled
	version string
	from    string // DerivedFrom
	reqs    []resolve.RequirementVersion
	parent  string // mangled name of the bundling parent, or the root's name
}

// expectedBundles computes the derived packages of one version.
func expectedBundles(p *nPkg, v *nVer) (rootReqs []resolve.RequirementVersion, ds []derived) {
	root := vkC(p.Name, v.Version)
	rootReqs = flatten(v.D)
	byName := map[string]int{}
	bs := append([]nBundle(nil), v.Bundled...)
	sort.SliceStable(bs, func(i, j int) bool { return len(bs[i].Path) < len(bs[j].Path) })
	for _, b := range bs {
		pk := pathPkgs(b.Path)
		d := derived{name: mangle(root, pk), version: b.Version, from: b.Name, reqs: flatten(b.D), parent: root.Name}
		if len(pk) > 1 {
			d.parent = mangle(root, pk[:len(pk)-1])
		}
		byName[d.name] = len(ds)
		ds = append(ds, d)
	}
	for _, d := range ds {
		req := resolve.RequirementVersion{VersionKey: resolve.VersionKey{PackageKey: resolve.PackageKey{System: resolve.NPM, Name: d.name}, VersionType: resolve.Requirement, Version: d.version}, Type: dep.NewType()}
		if d.parent == root.Name {
			rootReqs = append(rootReqs, req)
		} else if i, ok := byName[d.parent]; ok {
			ds[i].reqs = append(ds[i].reqs, req)
		}
	}
	return rootReqs, ds
}

// loadLocal builds the in-memory client from the model.
func loadLocal(r registry) *resolve.LocalClient {
	lc := resolve.NewLocalClient()
	for i := range r.Pkgs {
		p := &r.Pkgs[i]
		for j := range p.Versions {
			v := &p.Versions[j]
			var a version.AttrSet
			if v.Default {
				a.SetAttr(version.Tags, "latest")
			}
			reqs, ds := expectedBundles(p, v)
			lc.AddVersion(resolve.Version{VersionKey: vkC(p.Name, v.Version), AttrSet: a}, reqs)
			for _, d := range ds {
				var da version.AttrSet
				da.SetAttr(version.DerivedFrom, d.from)
				lc.AddVersion(resolve.Version{VersionKey: vkC(d.name, d.version), AttrSet: da}, d.reqs)
			}
		}
	}
	return lc
}

func reqKey(r resolve.RequirementVersion) string {
	return r.Name + "@" + r.Version + "[" + r.Type.String() + "]"
}

func sameReqs(got, want []resolve.RequirementVersion) bool {
	var a, b []string
	for _, r := range got {
		a = append(a, reqKey(r))
	}
	for _, r := range want {
		b = append(b, reqKey(r))
	}
	sort.Strings(a)
	sort.Strings(b)
	return strings.Join(a, "\x00") == strings.Join(b, "\x00")
}

func reqList(rs []resolve.RequirementVersion) string {
	var a []string
	for _, r := range rs {
		a = append(a, reqKey(r))
	}
	return "[" + strings.Join(a, ", ") + "]"
}

type rootCase struct {
	Registry registry  `json:"registry"`
	Root     [2]string `json:"root"`
}

type stats struct {
	nested, scopedAlias, bundles, aliases int
	notFound, hung                        bool
}

// structural checks clause (1) for one root version.
func structural(api *resolve.APIClient, p *nPkg, v *nVer, st *stats) (string, string) {
	ctx := context.Background()
	root := vkC(p.Name, v.Version)
	got, err := api.Requirements(ctx, root)
	if err != nil {
		return fmt.Sprintf("Requirements(%s@%s) fails: %v", p.Name, v.Version, err), "requirements of the version"
	}
	wantRoot, ds := expectedBundles(p, v)
	if !sameReqs(got, wantRoot) {
		return fmt.Sprintf("Requirements(%s@%s) = %s; expected %s", p.Name, v.Version, reqList(got), reqList(wantRoot)), "package.json sections, aliases on the real name with KnownAs, and one requirement per direct bundled package"
	}
	for _, r := range wantRoot {
		if a, ok := r.Type.GetAttr(dep.KnownAs); ok {
			st.aliases++
			if strings.HasPrefix(r.Name, "@") || strings.HasPrefix(a, "@") {
				st.scopedAlias++
			}
		}
	}
	for _, d := range ds {
		st.bundles++
		if strings.Count(d.name, ">") > 2 {
			st.nested++
		}
		pk := resolve.PackageKey{System: resolve.NPM, Name: d.name}
		vs, err := api.Versions(ctx, pk)
		if err != nil || len(vs) != 1 {
			return fmt.Sprintf("Versions(%s) = %v, %v", d.name, vs, err), "exactly one concrete version per bundled package"
		}
		if vs[0].Version != d.version || vs[0].VersionType != resolve.Concrete || vs[0].Name != d.name {
			return fmt.Sprintf("Versions(%s) lists %v; bundled version is %s", d.name, vs[0].VersionKey, d.version), "the bundled version"
		}
		if df, ok := vs[0].GetAttr(version.DerivedFrom); !ok || df != d.from {
			return fmt.Sprintf("bundled package %s records DerivedFrom=%q,%v; it derives from %q", d.name, df, ok, d.from), "DerivedFrom names the original package"
		}
		one, err := api.Version(ctx, vkC(d.name, d.version))
		if err != nil || one.VersionKey != vs[0].VersionKey || !one.AttrSet.Equal(vs[0].AttrSet) {
			return fmt.Sprintf("Version(%s@%s) = %v, %v; Versions lists %v", d.name, d.version, one, err, vs[0]), "Version and Versions agree"
		}
		rs, err := api.Requirements(ctx, vkC(d.name, d.version))
		if err != nil || !sameReqs(rs, d.reqs) {
			return fmt.Sprintf("Requirements(%s@%s) = %s, %v; expected %s", d.name, d.version, reqList(rs), err, reqList(d.reqs)), "the bundled package.json's requirements plus its nested bundles"
		}
		ms, err := api.MatchingVersions(ctx, resolve.VersionKey{PackageKey: pk, VersionType: resolve.Requirement, Version: d.version})
		if err != nil || len(ms) != 1 || ms[0].VersionKey != vs[0].VersionKey {
			return fmt.Sprintf("MatchingVersions(%s, %q) = %v, %v", d.name, d.version, ms, err), "the parent's requirement matches exactly the bundled version"
		}
		// ... and the calls agree on a version the package does not have
		other := d.version + "-0"
		if ms, err := api.MatchingVersions(ctx, resolve.VersionKey{PackageKey: pk, VersionType: resolve.Requirement, Version: other}); err != nil || len(ms) != 0 {
			return fmt.Sprintf("MatchingVersions(%s, %q) = %v, %v", d.name, other, ms, err), "no match: the package has the single version " + d.version
		}
		if one, err := api.Version(ctx, vkC(d.name, other)); !errors.Is(err, resolve.ErrNotFound) {
			return fmt.Sprintf("Version(%s@%s) = %v, %v although the package has the single version %s", d.name, other, one.VersionKey, err, d.version), "not found, as Versions and MatchingVersions say"
		}
		if rs, err := api.Requirements(ctx, vkC(d.name, other)); !errors.Is(err, resolve.ErrNotFound) {
			return fmt.Sprintf("Requirements(%s@%s) = %s, %v although the package has the single version %s", d.name, other, reqList(rs), err, d.version), "not found, as Versions and MatchingVersions say"
		}
	}
	return "", ""
}

// strictLocal is the in-memory client with the service's "not found" answer
// for a package without versions: LocalClient.AddVersion documents that it
// creates an empty entry for every package a requirement names, a state the
// service cannot be in (it answers NotFound), so "the same data" needs this
// alignment. Everything else is LocalClient's own behaviour.
type strictLocal struct{ *resolve.LocalClient }

func (s strictLocal) Versions(ctx context.Context, pk resolve.PackageKey) ([]resolve.Version, error) {
	if len(s.PackageVersions[pk]) == 0 {
		return nil, fmt.Errorf("package %v: %w", pk, resolve.ErrNotFound)
	}
	return s.LocalClient.Versions(ctx, pk)
}

func (s strictLocal) MatchingVersions(ctx context.Context, vk resolve.VersionKey) ([]resolve.Version, error) {
	if len(s.PackageVersions[vk.PackageKey]) == 0 {
		return nil, fmt.Errorf("package %v: %w", vk.PackageKey, resolve.ErrNotFound)
	}
	return s.LocalClient.MatchingVersions(ctx, vk)
}

func graphKey(g *resolve.Graph, err error) string {
	if errors.Is(err, resolve.ErrNotFound) {
		return "ERR:not found"
	}
	if err != nil {
		return "ERR:" + err.Error()
	}
	return iso.FromResolve(g).Canon()
}

func resolveWith(c resolve.Client, root resolve.VersionKey) (string, bool) {
	type out struct {
		g   *resolve.Graph
		err error
	}
	ch := make(chan out, 1)
	ctx, cancel := context.WithCancel(context.Background())
	defer cancel()
	go func() {
		g, err := npmresolve.NewResolver(c).Resolve(ctx, root)
		ch <- out{g, err}
	}()
	tm := time.NewTimer(watchdog)
	defer tm.Stop()
	select {
	case o := <-ch:
		return graphKey(o.g, o.err), false
	case <-tm.C:
		return "", true
	}
}

func checkRoot(r registry, root [2]string, st *stats) (obs, exp string) {
	f := &fake{r: r}
	api := resolve.NewAPIClient(f)
	p, v := f.find(root[0], root[1])
	if v == nil {
		return "", ""
	}
	if o, e := structural(api, p, v, st); o != "" {
		return o, e
	}
	// differential: API-backed vs in-memory
	ga, hungA := resolveWith(resolve.NewAPIClient(&fake{r: r}), vkC(root[0], root[1]))
	gl, hungL := resolveWith(strictLocal{loadLocal(r)}, vkC(root[0], root[1]))
	st.notFound = ga == "ERR:not found"
	if hungA || hungL {
		st.hung = true
		if os.Getenv("VERIF_DUMPHUNG") != "" {
			b, _ := json.Marshal(rootCase{r, root})
			fmt.Fprintf(os.Stderr, "HUNG api=%v local=%v %s\n", hungA, hungL, b)
		}
		return "", "" // totality is C04's business
	}
	if ga != "" && gl != "" && ga != gl {
		return fmt.Sprintf("resolving %s@%s through the API-backed client and through the in-memory client gives different graphs:\n--- API ---\n%s\n--- in-memory ---\n%s", root[0], root[1], ga, gl), "same graph"
	}
	return "", ""
}

// ---- generation -------------------------------------------------------------------

var pkgNames = []string{"a", "b", "@s/c", "d", "@s/e", "f", "@t/g"}
var verPool = []string{"1.0.0", "1.1.0", "2.0.0", "1.0.0-beta.1", "0.9.0"}

func drawDeps(t *rapid.T, npk int, selfIdx int, depth int) nDeps {
	var d nDeps
	used := map[string]bool{}
	n := rapid.IntRange(0, 3).Draw(t, "ndeps")
	for i := 0; i < n; i++ {
		ti := rapid.IntRange(0, npk-1).Draw(t, "target")
		target := pkgNames[ti]
		req := rapid.SampledFrom([]string{"^1.0.0", "*", "~1.1.0", ">=1.0.0", "1.x", "2.0.0", "latest", "^2.0.0", "<2"}).Draw(t, "req")
		x := nDep{Name: target, Req: req}
		// aliases point forward only and use fresh names (see the recorded npm
		// alias-cycle non-termination, C04)
		if rapid.IntRange(0, 4).Draw(t, "alias") == 0 && selfIdx >= 0 && selfIdx < npk-1 {
			ti = rapid.IntRange(selfIdx+1, npk-1).Draw(t, "aliastarget")
			// (sometimes the alias is the package's own name: "lodash": "npm:lodash@^4")
			x = nDep{Name: rapid.SampledFrom([]string{"al1", "@al/two", "al3", pkgNames[ti]}).Draw(t, "aliasname"), Req: "npm:" + pkgNames[ti] + "@" + req}
		}
		if used[x.Name] {
			continue
		}
		used[x.Name] = true
		switch rapid.IntRange(0, 9).Draw(t, "section") {
		case 0:
			d.Dev = append(d.Dev, x)
		case 1:
			d.Opt = append(d.Opt, x)
		case 2:
			d.Peer = append(d.Peer, x)
		default:
			d.Deps = append(d.Deps, x)
			if rapid.IntRange(0, 5).Draw(t, "bundledep") == 0 {
				d.Bundle = append(d.Bundle, x.Name)
			}
		}
	}
	return d
}

func drawRegistry(t *rapid.T) registry {
	npk := rapid.IntRange(2, len(pkgNames)).Draw(t, "npk")
	var r registry
	for i := 0; i < npk; i++ {
		p := nPkg{Name: pkgNames[i]}
		vs := rapid.Permutation(verPool).Draw(t, "versions")[:rapid.IntRange(1, 4).Draw(t, "nv")]
		def := -1
		if rapid.Bool().Draw(t, "hasdefault") {
			def = rapid.IntRange(0, len(vs)-1).Draw(t, "default")
		}
		for j, ver := range vs {
			v := nVer{Version: ver, Default: j == def, D: drawDeps(t, npk, i, 0)}
			// bundled tree
			if rapid.IntRange(0, 2).Draw(t, "hasbundle") == 0 {
				type ent struct {
					path string
					d    int
				}
				var ents []ent
				nb := rapid.IntRange(1, 4).Draw(t, "nbundled")
				for k := 0; k < nb; k++ {
					dir := rapid.SampledFrom([]string{"a", "b", "@s/c", "d", "x", "@u/y", "al1"}).Draw(t, "bdir")
					if dir == p.Name {
						// a bundle slot shadowing the bundling package's own name
						// is the trigger of the recorded non-termination
						// (C04 npm-bundle-reentry-nontermination)
						dir = "x"
					}
					parent := ent{"", 0}
					if len(ents) > 0 && rapid.Bool().Draw(t, "nested") {
						parent = ents[rapid.IntRange(0, len(ents)-1).Draw(t, "parent")]
					}
					if parent.d >= 3 {
						continue
					}
					path := parent.path + "node_modules/" + dir
					if parent.path != "" {
						path = parent.path + "/node_modules/" + dir
					}
					dup := false
					for _, e := range ents {
						if e.path == path {
							dup = true
						}
					}
					if dup {
						continue
					}
					ents = append(ents, ent{path, parent.d + 1})
					name := dir
					if rapid.IntRange(0, 4).Draw(t, "bundledalias") == 0 {
						name = rapid.SampledFrom([]string{"a", "b", "realpkg"}).Draw(t, "bname") // installed under an alias inside the bundle
					}
					v.Bundled = append(v.Bundled, nBundle{Path: path, Name: name, Version: rapid.SampledFrom(verPool).Draw(t, "bver"), D: drawDeps(t, npk, -1, parent.d+1)})
				}
				// the service lists bundled entries in no particular order
				perm := rapid.Permutation(v.Bundled).Draw(t, "border")
				v.Bundled = perm
			}
			p.Versions = append(p.Versions, v)
		}
		r.Pkgs = append(r.Pkgs, p)
	}
	return r
}

func knownClass(obs string) string { return "" }

func prop(t *rapid.T) {
	r := drawRegistry(t)
	for _, p := range r.Pkgs {
		for _, v := range p.Versions {
			root := [2]string{p.Name, v.Version}
			c := rootCase{r, root}
			rec.SetCase(c)
			var st stats
			obs, exp := checkRoot(r, root, &st)
			rec.Eval(1)
			if st.bundles > 0 {
				rec.Class("has-bundle")
			}
			if st.nested > 0 {
				rec.Class("nested-bundle")
			}
			if st.aliases > 0 {
				rec.Class("alias")
			}
			if strings.HasPrefix(obs, "") && st.notFound {
				rec.Class("resolution-ends-not-found")
			}
			if st.hung {
				rec.ExcludedDomain("resolver-watchdog-20s")
			}
			if st.nested > 0 || st.scopedAlias > 0 {
				b, _ := json.Marshal(c)
				rec.NonTrivial(string(b))
				if len(b) < 1500 && rec.WantSample() {
					rec.Sample(c)
				}
			}
			if obs != "" {
				if cl := knownClass(obs); cl != "" {
					rec.ExcludedKnown(cl)
					continue
				}
				rec.Fail(t, c, obs, exp)
			}
		}
	}
}

// raceProp: several goroutines resolve different roots through ONE API client.
func raceProp(t *rapid.T) {
	r := drawRegistry(t)
	var roots [][2]string
	for _, p := range r.Pkgs {
		for _, v := range p.Versions {
			roots = append(roots, [2]string{p.Name, v.Version})
		}
	}
	if len(roots) == 0 {
		return
	}
	k := rapid.IntRange(2, 16).Draw(t, "k")
	var batch [][2]string
	for i := 0; i < k; i++ {
		batch = append(batch, roots[rapid.IntRange(0, len(roots)-1).Draw(t, "root")])
	}
	c := map[string]any{"registry": r, "batch": batch}
	rec.SetCase(c)
	want := make([]string, k)
	for i, root := range batch {
		want[i], _ = resolveWith(resolve.NewAPIClient(&fake{r: r}), vkC(root[0], root[1]))
	}
	shared := resolve.NewAPIClient(&fake{r: r})
	got := make([]string, k)
	var wg sync.WaitGroup
	for i, root := range batch {
		wg.Add(1)
		go func(i int, root [2]string) {
			defer wg.Done()
			got[i], _ = resolveWith(shared, vkC(root[0], root[1]))
		}(i, root)
	}
	wg.Wait()
	for i := range batch {
		rec.Eval(1)
		if want[i] != "" && got[i] != "" && want[i] != got[i] {
			rec.Fail(t, c, fmt.Sprintf("concurrent resolution of %v through one APIClient differs from the sequential one:\n--- sequential ---\n%s\n--- concurrent ---\n%s", batch[i], want[i], got[i]), "same graph")
		}
	}
	if k >= 4 {
		b, _ := json.Marshal(c)
		rec.NonTrivial(string(b))
	}
}

func TestCorpus(t *testing.T) {
	rec.SetCheck("corpus")
	for _, fd := range kf.For("C18") {
		var c rootCase
		if err := json.Unmarshal(fd.Witness, &c); err != nil {
			t.Fatalf("bad witness %s: %v", fd.ID, err)
		}
		var st stats
		if obs, _ := checkRoot(c.Registry, c.Root, &st); obs != "" {
			rec.Known(fd.ID, fd.Text+" ["+strings.SplitN(obs, "\n", 2)[0]+"]")
		}
	}
}

func TestAPIClient(t *testing.T) {
	if raceMode {
		rec.Check(t, "race", ev.N(150, 10000), raceProp)
		return
	}
	rec.Check(t, "mapping+differential", ev.N(3000, 300000), prop)
	rec.Check(t, "concurrent", ev.N(300, 20000), raceProp)
}

func TestReplay(t *testing.T) {
	path := ev.ReplayFile()
	if path == "" {
		t.Skip("no replay file")
	}
	var c rootCase
	if _, err := ev.ReadReplay(path, &c); err != nil {
		t.Fatal(err)
	}
	if c.Root[0] == "" {
		t.Skip("concurrent-batch replays are the printed history")
	}
	var st stats
	if obs, exp := checkRoot(c.Registry, c.Root, &st); obs != "" && knownClass(obs) == "" {
		t.Fatalf("replay fails: %s (expected %s)", obs, exp)
	}
}
