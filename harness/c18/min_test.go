package c18

import (
	"context"
	"encoding/json"
	"fmt"
	"os"
	"testing"
	"time"

	"deps.dev/util/resolve"
	npmresolve "deps.dev/util/resolve/npm"
)

func hangs(c rootCase) bool {
	ch := make(chan struct{}, 1)
	ctx, cancel := context.WithCancel(context.Background())
	defer cancel()
	go func() {
		npmresolve.NewResolver(strictLocal{loadLocal(c.Registry)}).Resolve(ctx, vkC(c.Root[0], c.Root[1]))
		ch <- struct{}{}
	}()
	select {
	case <-ch:
		return false
	case <-time.After(1500 * time.Millisecond):
		return true
	}
}

func clone(c rootCase) rootCase {
	b, _ := json.Marshal(c)
	var d rootCase
	json.Unmarshal(b, &d)
	return d
}

func shrinkDeps(d *nDeps, try func() bool) {
	for _, sl := range []*[]nDep{&d.Deps, &d.Dev, &d.Opt, &d.Peer} {
		for i := 0; i < len(*sl); {
			old := *sl
			*sl = append(append([]nDep(nil), old[:i]...), old[i+1:]...)
			if !try() {
				*sl = old
				i++
			}
		}
	}
	for i := 0; i < len(d.Bundle); {
		old := d.Bundle
		d.Bundle = append(append([]string(nil), old[:i]...), old[i+1:]...)
		if !try() {
			d.Bundle = old
			i++
		}
	}
}

// TestMinimizeHang greedily shrinks a case on which the resolver does not
// return (development aid; VERIF_MINIMIZE=<file with a rootCase>).
func TestMinimizeHang(t *testing.T) {
	b, err := os.ReadFile(os.Getenv("VERIF_MINIMIZE"))
	if err != nil {
		t.Skip()
	}
	var c rootCase
	if err := json.Unmarshal(b, &c); err != nil {
		t.Fatal(err)
	}
	if !hangs(c) {
		t.Fatal("does not hang")
	}
	try := func() bool { return hangs(c) }
	for changed := true; changed; {
		before, _ := json.Marshal(c)
		for i := 0; i < len(c.Registry.Pkgs); {
			old := c.Registry.Pkgs
			c.Registry.Pkgs = append(append([]nPkg(nil), old[:i]...), old[i+1:]...)
			if !try() {
				c.Registry.Pkgs = old
				i++
			}
		}
		for pi := range c.Registry.Pkgs {
			p := &c.Registry.Pkgs[pi]
			for i := 0; i < len(p.Versions); {
				old := p.Versions
				p.Versions = append(append([]nVer(nil), old[:i]...), old[i+1:]...)
				if !try() {
					p.Versions = old
					i++
				}
			}
			for vi := range p.Versions {
				v := &p.Versions[vi]
				for i := 0; i < len(v.Bundled); {
					old := v.Bundled
					v.Bundled = append(append([]nBundle(nil), old[:i]...), old[i+1:]...)
					if !try() {
						v.Bundled = old
						i++
					}
				}
				shrinkDeps(&v.D, try)
				for bi := range v.Bundled {
					shrinkDeps(&v.Bundled[bi].D, try)
				}
				if v.Default {
					v.Default = false
					if !try() {
						v.Default = true
					}
				}
			}
		}
		after, _ := json.Marshal(c)
		changed = string(before) != string(after)
	}
	out, _ := json.Marshal(c)
	fmt.Println("MINIMAL", string(out))
	_ = resolve.NPM
}
