package c01

import (
	"strings"
	"testing"

	"deps.dev/util/resolve/verifh/internal/ev"
	"deps.dev/util/resolve/verifh/internal/gen"
	"deps.dev/util/semver"
	"pgregory.net/rapid"
)

// Wildcard patterns are accepted by Parse in four systems, so the laws are
// asked of them too: triples mixing a pattern with the short and the
// zero-padded spelling of the same numbers.
func wildProp(sys semver.System) func(*rapid.T) {
	return func(t *rapid.T) {
		g := gen.WildcardPattern(sys)
		strs := []string{g.Draw(t, "a"), g.Draw(t, "b"), g.Draw(t, "c")}
		if rapid.Bool().Draw(t, "related") {
			// the second and third are spellings of the first's prefix
			p := strings.SplitN(strs[0], "-", 2)[0]
			parts := strings.Split(p, ".")
			k := rapid.IntRange(1, len(parts)).Draw(t, "k")
			strs[1] = strings.Join(parts[:k], ".")
			strs[2] = strs[1] + rapid.SampledFrom([]string{".0", ".0.0", ".*", ".x", ""}).Draw(t, "tail")
		}
		c := tripleCase{sys.String(), strs}
		rec.SetCase(c)
		vs := make([]*semver.Version, 3)
		wild := false
		for i, s := range strs {
			v, err := sys.Parse(s)
			if err != nil {
				rec.ExcludedDomain("rejected")
				return
			}
			vs[i] = v
			wild = wild || v.IsWildcard()
		}
		rec.Eval(1)
		if wild && strs[0] != strs[1] && strs[1] != strs[2] && strs[0] != strs[2] {
			rec.NonTrivial(sys.String() + "|" + strings.Join(strs, "|"))
			if rec.WantSample() {
				rec.Sample(c)
			}
		}
		if obs, exp := lawsViolation(sys, strs, vs); obs != "" {
			rec.Fail(t, c, obs, exp)
		}
	}
}

func TestWildcardLaws(t *testing.T) {
	for _, sys := range []semver.System{semver.DefaultSystem, semver.NPM, semver.Cargo, semver.NuGet, semver.PyPI} {
		rec.Check(t, "laws-wildcards/"+sys.String(), ev.N(4000, 400000), wildProp(sys))
	}
}
