// C01 — version comparison is a total preorder in every packaging system.
package c01

import (
	"encoding/json"
	"fmt"
	"os"
	"regexp"
	"sort"
	"strings"
	"testing"

	"deps.dev/util/resolve"
	"deps.dev/util/resolve/verifh/internal/ev"
	"deps.dev/util/resolve/verifh/internal/gen"
	"deps.dev/util/resolve/verifh/internal/known"
	"deps.dev/util/semver"
	"pgregory.net/rapid"
)

var rec = ev.New("C01")
var kf *known.File

func TestMain(m *testing.M) {
	kf, _ = known.Load(ev.KnownFile())
	rec.Rule("triples (base + neighbour mutations 60%) of versions per system from the DESIGN §6 grammars; oracle = order laws (reflexive, antisymmetric, transitive, congruent), build-metadata and call-history metamorphic relations, sort-permutation relation; the same laws on triples of wildcard patterns (1.x, 1.2.*, *, NuGet floating versions) mixed with the short and zero-padded spellings of their numbers, in the four systems whose Parse accepts them (laws-wildcards; non-trivial there: three distinct strings, one a pattern). Non-trivial: three distinct strings containing an equal pair of distinct strings or a strict chain whose members share the first numeric component. Distinct = distinct (check, system, triple) text.")
	rec.Assume("wildcard patterns (1.x, 1.*) accepted by Parse are asked the laws in the laws-wildcards checks (four systems); the other checks leave them out")
	rec.Assume("Maven domain restricted to DESIGN §6.4 shape: numeric prefix, optional qualifier, optional number, optional -SNAPSHOT")
	ev.Main(m, rec)
}

func sgn(x int) int {
	switch {
	case x < 0:
		return -1
	case x > 0:
		return 1
	}
	return 0
}

type tripleCase struct {
	System string   `json:"system"`
	V      []string `json:"v"`
}

func parseAll(sys semver.System, vs []string) ([]*semver.Version, bool) {
	out := make([]*semver.Version, len(vs))
	for i, s := range vs {
		// The Maven domain is the DESIGN §6.4 shape; neighbour mutation can leave it.
		if sys == semver.Maven && !gen.InMavenDomain(s) {
			return nil, false
		}
		v, err := sys.Parse(s)
		if err != nil || v.IsWildcard() {
			return nil, false
		}
		out[i] = v
	}
	return out, true
}

func firstNum(s string) string {
	s = strings.TrimLeft(s, "vV")
	if i := strings.IndexByte(s, '!'); i >= 0 {
		s = s[i+1:]
	}
	i := 0
	for i < len(s) && s[i] >= '0' && s[i] <= '9' {
		i++
	}
	return s[:i]
}

// lawsViolation returns a description of the first broken law, or "".
func lawsViolation(sys semver.System, strs []string, vs []*semver.Version) (string, string) {
	n := len(vs)
	c := make([][]int, n)
	for i := range c {
		c[i] = make([]int, n)
		for j := range c[i] {
			c[i][j] = sgn(vs[i].Compare(vs[j]))
		}
	}
	for i := 0; i < n; i++ {
		if c[i][i] != 0 {
			return fmt.Sprintf("cmp(%q,%q)=%d", strs[i], strs[i], c[i][i]), "reflexive: 0"
		}
		// A second parse of the same string is the same version.
		w, err := sys.Parse(strs[i])
		if err != nil {
			return fmt.Sprintf("second Parse(%q) failed: %v", strs[i], err), "same result as first parse"
		}
		if r := sgn(vs[i].Compare(w)); r != 0 {
			return fmt.Sprintf("cmp(%q, reparsed %q)=%d", strs[i], strs[i], r), "0"
		}
	}
	for i := 0; i < n; i++ {
		for j := 0; j < n; j++ {
			if c[i][j] != -c[j][i] {
				return fmt.Sprintf("cmp(%q,%q)=%d but cmp(%q,%q)=%d", strs[i], strs[j], c[i][j], strs[j], strs[i], c[j][i]), "antisymmetric"
			}
			if s := sgn(sys.Compare(strs[i], strs[j])); s != c[i][j] {
				return fmt.Sprintf("System.Compare(%q,%q)=%d but Version.Compare=%d", strs[i], strs[j], s, c[i][j]), "same"
			}
		}
	}
	for i := 0; i < n; i++ {
		for j := 0; j < n; j++ {
			for k := 0; k < n; k++ {
				if c[i][j] <= 0 && c[j][k] <= 0 && c[i][k] > 0 {
					return fmt.Sprintf("%q<=%q (%d), %q<=%q (%d) but cmp(%q,%q)=%d", strs[i], strs[j], c[i][j], strs[j], strs[k], c[j][k], strs[i], strs[k], c[i][k]), "transitive"
				}
				if c[i][j] == 0 && c[i][k] != c[j][k] {
					return fmt.Sprintf("%q==%q but cmp(%q,%q)=%d and cmp(%q,%q)=%d", strs[i], strs[j], strs[i], strs[k], c[i][k], strs[j], strs[k], c[j][k]), "congruent"
				}
			}
		}
	}
	return "", ""
}

func nontrivial(strs []string, vs []*semver.Version) bool {
	if strs[0] == strs[1] || strs[1] == strs[2] || strs[0] == strs[2] {
		return false
	}
	eq := false
	for i := 0; i < 3; i++ {
		for j := i + 1; j < 3; j++ {
			if vs[i].Compare(vs[j]) == 0 {
				eq = true
			}
		}
	}
	if eq {
		return true
	}
	return firstNum(strs[0]) == firstNum(strs[1]) && firstNum(strs[1]) == firstNum(strs[2])
}

var hasBuild = map[semver.System]bool{
	semver.DefaultSystem: true, semver.NPM: true, semver.Cargo: true, semver.Go: true,
	semver.Composer: true, semver.NuGet: true,
}

// Known-finding classes (consulted only while known_findings.txt lists them).
//
// MavenZeroDotQualifier: Maven's own ordering algorithm (which the library
// reproduces) ranks element kinds by type at one position (number > list >
// string) but ranks a version against a shorter one by the sign of the extra
// elements. A version with a zero component followed by a '.'-introduced
// qualifier that sorts before the release ("1.0.alpha" < "1") is therefore
// below "1", while "1-sp"/"1-foo" is above "1" and yet below "1.0.alpha"
// (string/list < number). The class needs both shapes in the case.
var zeroDotNegQual = regexp.MustCompile(`(?i)\.0+\.(alpha|beta|milestone|rc|cr|snapshot|[abm][0-9])`)

// MavenZeroDotReleaseQualifierNumber: "1.0.ga.1" — a zero component, then a
// '.'-introduced release-equivalent qualifier (ga/final/release) followed by a
// number. The library compares the qualifier with the textual padding "0"
// instead of the empty qualifier and orders "1.0.ga.1" below "1" (Maven: above),
// which also breaks transitivity against "1-sp", "1-1", ...
var zeroDotReleaseQualNum = regexp.MustCompile(`(?i)\.0+\.(ga|final|release)[-.]?[0-9]`)

// knownClass is consulted once a law is broken. MavenZeroDotQualifier is
// Maven's own non-transitivity and needs both shapes in the case: a version
// with a zero component followed by a '.'-introduced qualifier that sorts
// before the release, and a version with a '-'-introduced element or a
// qualifier that sorts after the release (sp, an unknown word, a number).
// (Maven 3.8.7's ComparableVersion cannot serve as the judge here: on
// '.'-introduced qualifiers it differs from the documented algorithm the
// library follows, see DESIGN §4.3.)
var prefixThenRest = regexp.MustCompile(`^[0-9]+(\.[0-9]+)*([-.]?)([A-Za-z]*)([0-9]?)`)

// dashOrPositiveQual: after the numeric prefix comes a '-'-introduced element,
// or a qualifier that does not sort before the release.
func dashOrPositiveQual(s string) bool {
	m := prefixThenRest.FindStringSubmatch(s)
	if m == nil || len(m[0]) == len(s) && m[2] == "" && m[3] == "" {
		return false
	}
	if m[2] == "-" {
		return true
	}
	switch strings.ToLower(m[3]) {
	case "", "alpha", "beta", "milestone", "rc", "cr", "snapshot":
		return false
	case "a", "b", "m":
		// a1 is alpha-1; a alone is an unknown word, which sorts after the release
		return m[4] == ""
	}
	return true
}

func knownClass(sys semver.System, strs []string) string {
	if sys != semver.Maven {
		return ""
	}
	shape := func(re *regexp.Regexp) bool {
		for _, s := range strs {
			if re.MatchString(s) {
				return true
			}
		}
		return false
	}
	other := false
	for _, x := range strs {
		other = other || dashOrPositiveQual(x)
	}
	if shape(zeroDotNegQual) && other && kf.Open("C01", "MavenZeroDotQualifier") {
		return "MavenZeroDotQualifier"
	}
	if shape(zeroDotReleaseQualNum) && kf.Open("C01", "MavenZeroDotReleaseQualifierNumber") {
		return "MavenZeroDotReleaseQualifierNumber"
	}
	return ""
}

func lawsProp(sys semver.System, g *rapid.Generator[string]) func(*rapid.T) {
	return func(t *rapid.T) {
		tr := gen.Triple(sys, g).Draw(t, "triple")
		strs := tr[:]
		c := tripleCase{sys.String(), strs}
		rec.SetCase(c)
		vs, ok := parseAll(sys, strs)
		if !ok {
			rec.ExcludedDomain("rejected-or-wildcard")
			return
		}
		rec.Eval(1)
		if nontrivial(strs, vs) {
			rec.NonTrivial(sys.String() + "|" + strings.Join(strs, "|"))
			rec.Class("nontrivial")
			if rec.WantSample() {
				rec.Sample(c)
			}
		}
		if obs, exp := lawsViolation(sys, strs, vs); obs != "" {
			if cl := knownClass(sys, strs); cl != "" {
				rec.ExcludedKnown(cl)
				return
			}
			rec.Fail(t, c, obs, exp)
		}
	}
}

func metadataProp(sys semver.System, g *rapid.Generator[string]) func(*rapid.T) {
	return func(t *rapid.T) {
		a := g.Draw(t, "a")
		b := a
		if rapid.Bool().Draw(t, "near") {
			b = gen.Neighbour(sys, a).Draw(t, "b")
		} else {
			b = g.Draw(t, "b2")
		}
		if strings.ContainsRune(a, '+') {
			a = a[:strings.IndexByte(a, '+')]
		}
		meta := rapid.SampledFrom([]string{"+x", "+1", "+build.5", "+0.a-b", "+001"}).Draw(t, "meta")
		c := tripleCase{sys.String(), []string{a, a + meta, b}}
		rec.SetCase(c)
		vs, ok := parseAll(sys, c.V)
		if !ok {
			rec.ExcludedDomain("rejected-or-wildcard")
			return
		}
		rec.Eval(1)
		if a != b {
			rec.NonTrivial(sys.String() + "|" + strings.Join(c.V, "|"))
			if rec.WantSample() {
				rec.Sample(c)
			}
		}
		if r := vs[0].Compare(vs[1]); r != 0 {
			rec.Fail(t, c, fmt.Sprintf("cmp(%q,%q)=%d", c.V[0], c.V[1], r), "0: build metadata never changes the result")
		}
		if r1, r2 := sgn(vs[0].Compare(vs[2])), sgn(vs[1].Compare(vs[2])); r1 != r2 {
			rec.Fail(t, c, fmt.Sprintf("cmp(%q,%q)=%d but cmp(%q,%q)=%d", c.V[0], c.V[2], r1, c.V[1], c.V[2], r2), "equal: build metadata never changes the result")
		}
		if r1, r2 := sgn(vs[2].Compare(vs[0])), sgn(vs[2].Compare(vs[1])); r1 != r2 {
			rec.Fail(t, c, fmt.Sprintf("cmp(%q,%q)=%d but cmp(%q,%q)=%d", c.V[2], c.V[0], r1, c.V[2], c.V[1], r2), "equal: build metadata never changes the result")
		}
	}
}

// historyProp: results do not depend on earlier calls on the same objects.
func historyProp(sys semver.System, g *rapid.Generator[string]) func(*rapid.T) {
	return func(t *rapid.T) {
		tr := gen.Triple(sys, g).Draw(t, "triple")
		strs := tr[:]
		c := tripleCase{sys.String(), strs}
		rec.SetCase(c)
		vs, ok := parseAll(sys, strs)
		if !ok {
			rec.ExcludedDomain("rejected-or-wildcard")
			return
		}
		rec.Eval(1)
		before := [3]int{sgn(vs[0].Compare(vs[1])), sgn(vs[1].Compare(vs[2])), sgn(vs[0].Compare(vs[2]))}
		canonBefore := [3]string{vs[0].Canon(true), vs[1].Canon(true), vs[2].Canon(true)}
		// Unrelated work on the same objects: other comparisons, canonical
		// strings, differences, constraint parsing and matching (which build
		// spans from versions), MinVersion on a scratch version.
		nops := rapid.IntRange(1, 50).Draw(t, "nops")
		for i := 0; i < nops; i++ {
			x := vs[rapid.IntRange(0, 2).Draw(t, "x")]
			y := vs[rapid.IntRange(0, 2).Draw(t, "y")]
			op := rapid.IntRange(0, 6).Draw(t, "op")
			other := g.Draw(t, "other")
			sb := rapid.Bool().Draw(t, "sb")
			cop := rapid.SampledFrom([]string{">=", "<", "^", "~", "=", "<=", ">"}).Draw(t, "cop")
			unrelated(sys, op, x, y, other, sb, cop)
		}
		after := [3]int{sgn(vs[0].Compare(vs[1])), sgn(vs[1].Compare(vs[2])), sgn(vs[0].Compare(vs[2]))}
		if before != after {
			rec.Fail(t, c, fmt.Sprintf("comparisons before %v, after unrelated calls %v", before, after), "identical")
		}
		canonAfter := [3]string{vs[0].Canon(true), vs[1].Canon(true), vs[2].Canon(true)}
		if canonBefore != canonAfter {
			rec.Fail(t, c, fmt.Sprintf("canonical strings before %v, after unrelated calls %v", canonBefore, canonAfter), "identical")
		}
		fresh, _ := parseAll(sys, strs)
		fr := [3]int{sgn(fresh[0].Compare(fresh[1])), sgn(fresh[1].Compare(fresh[2])), sgn(fresh[0].Compare(fresh[2]))}
		if fr != before {
			rec.Fail(t, c, fmt.Sprintf("comparisons on used objects %v, on freshly parsed %v", before, fr), "identical")
		}
		if nops >= 10 && strs[0] != strs[1] && strs[1] != strs[2] {
			rec.NonTrivial(sys.String() + "|" + strings.Join(strs, "|") + fmt.Sprint(nops))
			if rec.WantSample() {
				rec.Sample(map[string]any{"system": sys.String(), "v": strs, "unrelated_ops": nops})
			}
		}
	}
}

type sortCase struct {
	System string   `json:"system"`
	List   []string `json:"list"`
	Perm   []int    `json:"perm"`
}

var resolveSys = map[semver.System]resolve.System{
	semver.NPM: resolve.NPM, semver.Maven: resolve.Maven, semver.PyPI: resolve.PyPI,
}

func sortViolation(sys semver.System, list []string, perm []int) (string, string) {
	vs, ok := parseAll(sys, list)
	if !ok {
		return "", ""
	}
	idx1 := make([]int, len(list))
	for i := range idx1 {
		idx1[i] = i
	}
	idx2 := append([]int(nil), perm...)
	srt := func(idx []int) {
		sort.Slice(idx, func(i, j int) bool { return vs[idx[i]].Compare(vs[idx[j]]) < 0 })
	}
	srt(idx1)
	srt(idx2)
	for i := range idx1 {
		for j := i + 1; j < len(idx1); j++ {
			if vs[idx1[i]].Compare(vs[idx1[j]]) > 0 {
				return fmt.Sprintf("sorted output has %q (pos %d) before %q (pos %d) although the first compares greater", list[idx1[i]], i, list[idx1[j]], j), "ascending"
			}
		}
		if vs[idx1[i]].Compare(vs[idx2[i]]) != 0 {
			return fmt.Sprintf("position %d holds %q when sorting the list as given and %q when sorting permutation %v", i, list[idx1[i]], list[idx2[i]], perm), "same sequence of equivalence classes"
		}
	}
	if rs, ok := resolveSys[sys]; ok {
		mk := func(order []int) []resolve.Version {
			out := make([]resolve.Version, len(order))
			for i, k := range order {
				out[i] = resolve.Version{VersionKey: resolve.VersionKey{
					PackageKey:  resolve.PackageKey{System: rs, Name: "p"},
					VersionType: resolve.Concrete, Version: list[k]}}
			}
			return out
		}
		id := make([]int, len(list))
		for i := range id {
			id[i] = i
		}
		a, b := mk(id), mk(perm)
		resolve.SortVersions(a)
		resolve.SortVersions(b)
		for i := range a {
			va, _ := sys.Parse(a[i].Version)
			vb, _ := sys.Parse(b[i].Version)
			if va.Compare(vb) != 0 {
				return fmt.Sprintf("resolve.SortVersions: position %d holds %q for the list as given and %q for permutation %v", i, a[i].Version, b[i].Version, perm), "same sequence of equivalence classes"
			}
			if i > 0 {
				pa, _ := sys.Parse(a[i-1].Version)
				if pa.Compare(va) > 0 {
					return fmt.Sprintf("resolve.SortVersions output not ascending at %d: %q then %q", i, a[i-1].Version, a[i].Version), "ascending"
				}
			}
		}
	}
	return "", ""
}

func sortProp(sys semver.System, g *rapid.Generator[string]) func(*rapid.T) {
	return func(t *rapid.T) {
		n := rapid.IntRange(3, 12).Draw(t, "n")
		list := make([]string, 0, n)
		for i := 0; i < n; i++ {
			if i > 0 && rapid.IntRange(0, 9).Draw(t, "near") < 6 {
				list = append(list, gen.Neighbour(sys, list[rapid.IntRange(0, i-1).Draw(t, "from")]).Draw(t, "nb"))
			} else {
				list = append(list, g.Draw(t, "v"))
			}
		}
		perm := rapid.Permutation(seq(n)).Draw(t, "perm")
		c := sortCase{sys.String(), list, perm}
		rec.SetCase(c)
		if _, ok := parseAll(sys, list); !ok {
			rec.ExcludedDomain("rejected-or-wildcard")
			return
		}
		rec.Eval(1)
		distinct := map[string]bool{}
		for _, s := range list {
			distinct[s] = true
		}
		if len(distinct) >= 3 {
			rec.NonTrivial(sys.String() + "|" + strings.Join(list, "|") + fmt.Sprint(perm))
			if rec.WantSample() {
				rec.Sample(c)
			}
		}
		if obs, exp := sortViolation(sys, list, perm); obs != "" {
			if cl := knownClass(sys, list); cl != "" {
				rec.ExcludedKnown(cl)
				return
			}
			rec.Fail(t, c, obs, exp)
		}
	}
}

func seq(n int) []int {
	s := make([]int, n)
	for i := range s {
		s[i] = i
	}
	return s
}

func sysByName(name string) (semver.System, bool) {
	for _, s := range gen.Systems {
		if s.String() == name {
			return s, true
		}
	}
	return 0, false
}

// TestCorpus replays the known-finding witnesses and the committed corpus with
// plain loops (no library).
func TestCorpus(t *testing.T) {
	rec.SetCheck("corpus")
	for _, fd := range kf.For("C01") {
		var c tripleCase
		if err := json.Unmarshal(fd.Witness, &c); err != nil {
			t.Fatalf("bad witness for %s: %v", fd.ID, err)
		}
		sys, _ := sysByName(c.System)
		vs, ok := parseAll(sys, c.V)
		if !ok {
			continue
		}
		if obs, _ := lawsViolation(sys, c.V, vs); obs != "" {
			rec.Known(fd.ID, fd.Text+" ["+obs+"]")
		}
	}
	path := os.Getenv("VERIF_ROOT") + "/corpus/C01/triples.jsonl"
	b, err := os.ReadFile(path)
	if err != nil {
		return
	}
	for _, line := range strings.Split(string(b), "\n") {
		if strings.TrimSpace(line) == "" {
			continue
		}
		var c tripleCase
		if json.Unmarshal([]byte(line), &c) != nil {
			continue
		}
		sys, _ := sysByName(c.System)
		vs, ok := parseAll(sys, c.V)
		if !ok {
			continue
		}
		rec.Eval(1)
		if obs, exp := lawsViolation(sys, c.V, vs); obs != "" && knownClass(sys, c.V) == "" {
			rec.Violation("corpus", c, obs, exp)
			t.Errorf("corpus case %v: %s", c, obs)
		}
	}
}

func TestLaws(t *testing.T) {
	for _, sys := range gen.Systems {
		rec.Check(t, "laws/"+sys.String(), ev.N(50000, 4000000), lawsProp(sys, gen.Version(sys)))
	}
}

func TestMetadata(t *testing.T) {
	for _, sys := range gen.Systems {
		if hasBuild[sys] {
			rec.Check(t, "metadata/"+sys.String(), ev.N(5000, 300000), metadataProp(sys, gen.Version(sys)))
		}
	}
}

func TestHistory(t *testing.T) {
	for _, sys := range gen.Systems {
		rec.Check(t, "history/"+sys.String(), ev.N(1500, 100000), historyProp(sys, gen.Version(sys)))
	}
}

func TestSort(t *testing.T) {
	for _, sys := range gen.Systems {
		rec.Check(t, "sort/"+sys.String(), ev.N(2000, 200000), sortProp(sys, gen.Version(sys)))
	}
}

func TestReplay(t *testing.T) {
	path := ev.ReplayFile()
	if path == "" {
		t.Skip("no replay file")
	}
	var raw map[string]any
	check, err := ev.ReadReplay(path, &raw)
	if err != nil {
		t.Fatal(err)
	}
	b, _ := json.Marshal(raw)
	sys, _ := sysByName(fmt.Sprint(raw["system"]))
	if strings.HasPrefix(check, "sort/") {
		var c sortCase
		json.Unmarshal(b, &c)
		if obs, exp := sortViolation(sys, c.List, c.Perm); obs != "" && knownClass(sys, c.List) == "" {
			t.Fatalf("replay fails: %s (expected %s)", obs, exp)
		}
		return
	}
	var c tripleCase
	json.Unmarshal(b, &c)
	vs, ok := parseAll(sys, c.V)
	if !ok {
		t.Skip("not parsable any more")
	}
	if strings.HasPrefix(check, "metadata/") {
		if vs[0].Compare(vs[1]) != 0 || sgn(vs[0].Compare(vs[2])) != sgn(vs[1].Compare(vs[2])) {
			t.Fatalf("replay fails: build metadata changes comparison for %v", c.V)
		}
		return
	}
	if obs, exp := lawsViolation(sys, c.V, vs); obs != "" && knownClass(sys, c.V) == "" {
		t.Fatalf("replay fails: %s (expected %s)", obs, exp)
	}
}

// FuzzOrderLaws drives the same law check from Go's coverage-guided fuzzer.
func FuzzOrderLaws(f *testing.F) {
	for _, s := range []string{"1.0.0", "1.0.0-alpha", "0.0-foo", "1.0a1.post2.dev3+abc", "1.2.3.a.0.b", "v1.2.3-0.x+b", "0-Final-SNAPSHOT", "1!2.0", "1.0.0.0-rc.1"} {
		f.Add(uint8(3), s, s+".0", s+"-1")
	}
	f.Fuzz(func(t *testing.T, sysb uint8, a, b, c string) {
		sys := gen.Systems[int(sysb)%len(gen.Systems)]
		strs := []string{a, b, c}
		if sys == semver.Maven {
			for _, s := range strs {
				if !gen.InMavenDomain(s) {
					return
				}
			}
		}
		vs, ok := parseAll(sys, strs)
		if !ok {
			return
		}
		if obs, exp := lawsViolation(sys, strs, vs); obs != "" && knownClass(sys, strs) == "" {
			t.Fatalf("system=%s v=%q: %s (expected %s)", sys, strs, obs, exp)
		}
	})
}

// unrelated performs one call that must not influence later comparisons. A
// panic inside it is C04's business, not C01's: it is swallowed and counted.
func unrelated(sys semver.System, op int, x, y *semver.Version, other string, sb bool, cop string) {
	defer func() {
		if r := recover(); r != nil {
			rec.Class("unrelated-call-panicked")
		}
	}()
	switch op {
	case 0:
		x.Compare(y)
	case 1:
		x.Canon(sb)
	case 2:
		x.Difference(y)
	case 3:
		if con, err := sys.ParseConstraint(x.String()); err == nil {
			con.MatchVersion(y)
			con.MatchVersionPrerelease(x)
			_ = con.Set().String()
		}
	case 4:
		o, err := sys.Parse(other)
		if err == nil {
			o.Compare(x)
			x.Compare(o)
		}
	case 5:
		scratch, err := sys.Parse(y.String())
		if err == nil {
			m := sys.MinVersion(scratch)
			m.Compare(x)
		}
	case 6:
		if con, err := sys.ParseConstraint(cop + x.String()); err == nil {
			con.MatchVersion(y)
			if s2, err := sys.ParseConstraint(y.String()); err == nil {
				a, b := con.Set(), s2.Set()
				a.Union(b)
				a.Intersect(b)
			}
		}
	}
}
