package c07

import (
	"context"
	"encoding/json"
	"fmt"
	"slices"
	"sort"
	"strings"
	"testing"

	"deps.dev/util/resolve"
	mavenresolve "deps.dev/util/resolve/maven"
	"deps.dev/util/resolve/schema"
	"deps.dev/util/resolve/verifh/internal/ev"
	"deps.dev/util/resolve/verifh/internal/gen"
	"deps.dev/util/semver"
	"pgregory.net/rapid"
)

// ---- ordered preference on universes with a static traversal ----------------
//
// In a general universe the order in which the resolver met the requirements of
// an artifact is not visible in the graph it returns: a re-resolution keeps the
// requirements of earlier passes, whose traversal may have been different. The
// order *is* determined when the traversal cannot change: every carrier
// artifact has one version and is required by that exact version, and the
// artifacts with several versions (the targets) have no dependencies. Then the
// requirements of a target are met in breadth-first order in every pass, and
// the documented preference (resolve.go, findMatch: soft versions in order,
// skipping those outside a range; the first range stands for the highest listed
// version inside every range) fixes the outcome of every edge.

var prefPool = []string{"1.0", "1.1", "1.2", "2.0", "2.1", "3.0"}

func prefUniverse(t *rapid.T) gen.Universe {
	u := gen.Universe{System: "maven"}
	np := rapid.IntRange(2, 8).Draw(t, "carriers")
	nt := rapid.IntRange(1, 2).Draw(t, "targets")
	var targets []gen.UPkg
	for i := 0; i < nt; i++ {
		p := gen.UPkg{Name: fmt.Sprintf("k:t%d", i)}
		n := rapid.IntRange(2, len(prefPool)).Draw(t, "nversions")
		perm := rapid.Permutation(prefPool).Draw(t, "listed")
		for _, v := range perm[:n] {
			p.Versions = append(p.Versions, gen.UVer{Version: v})
		}
		targets = append(targets, p)
	}
	bound := rapid.SampledFrom(prefPool)
	reqOn := func(p gen.UPkg) string {
		listed := func() string {
			return p.Versions[rapid.IntRange(0, len(p.Versions)-1).Draw(t, "lv")].Version
		}
		switch rapid.IntRange(0, 11).Draw(t, "reqkind") {
		case 0, 1, 2, 3:
			return listed()
		case 4:
			return bound.Draw(t, "soft") // possibly not listed
		case 5:
			return "[" + listed() + ",)"
		case 6:
			return "(," + listed() + "]"
		case 7:
			return "[" + listed() + "]"
		case 8:
			a, b := bound.Draw(t, "a"), bound.Draw(t, "b")
			if semver.Maven.Compare(a, b) > 0 {
				a, b = b, a
			}
			return "[" + a + "," + b + "]"
		case 9:
			a, b := bound.Draw(t, "a"), bound.Draw(t, "b")
			if semver.Maven.Compare(a, b) > 0 {
				a, b = b, a
			}
			if a == b {
				return "[" + a + ",)"
			}
			return "(" + a + "," + b + ")"
		case 10:
			return "(," + bound.Draw(t, "b") + ")"
		default:
			return "[1.0,1.1],[" + rapid.SampledFrom([]string{"2.0", "2.1", "3.0"}).Draw(t, "b") + ",)"
		}
	}
	for i := 0; i < np; i++ {
		p := gen.UPkg{Name: fmt.Sprintf("g:p%d", i)}
		v := gen.UVer{Version: "1.0"}
		// requirements on other carriers (forward-biased so that most carriers are reached)
		var others []int
		for j := 0; j < np; j++ {
			if j != i {
				others = append(others, j)
			}
		}
		k := rapid.IntRange(0, min(3, len(others))).Draw(t, "ncarrierreqs")
		if i == 0 && k == 0 {
			k = 1
		}
		perm := rapid.Permutation(others).Draw(t, "carrierreqs")
		for _, j := range perm[:k] {
			v.Reqs = append(v.Reqs, gen.UReq{Name: fmt.Sprintf("g:p%d", j), Req: "1.0"})
		}
		for _, tp := range targets {
			if rapid.IntRange(0, 9).Draw(t, "hasreq") < 6 {
				r := gen.UReq{Name: tp.Name, Req: reqOn(tp)}
				at := rapid.IntRange(0, len(v.Reqs)).Draw(t, "at")
				v.Reqs = slices.Insert(v.Reqs, at, r)
			}
		}
		p.Versions = []gen.UVer{v}
		u.Pkgs = append(u.Pkgs, p)
	}
	u.Pkgs = append(u.Pkgs, targets...)
	return u
}

type prefOutcome struct {
	fatal bool              // Resolve returns an error
	passes int              // re-resolutions before the requirements settle
	edges map[string]string // "dependent requirement" -> selected version or "error"
}

// findMatchModel is the documented preference. kind: 0 match, 1 no match, 2 error.
func findMatchModel(acc []string, listed []string) (string, int) {
	var softs []string
	var hard []*semver.Constraint
	hardIdx := -1
	for i, r := range acc {
		if !isRange(r) {
			softs = append(softs, r)
			continue
		}
		c, err := semver.Maven.ParseConstraint(r)
		if err != nil {
			return "", 2
		}
		if hardIdx < 0 {
			hardIdx = i
		}
		if !slices.ContainsFunc(listed, func(v string) bool { return c.Match(v) }) {
			return "", 2
		}
		hard = append(hard, c)
	}
	inAll := func(v string) bool {
		for _, c := range hard {
			if !c.Match(v) {
				return false
			}
		}
		return true
	}
	best := ""
	for _, v := range listed {
		if inAll(v) && (best == "" || semver.Maven.Compare(v, best) > 0) {
			best = v
		}
	}
	for i, s := range softs {
		if i == hardIdx && best != "" {
			return best, 0
		}
		if inAll(s) {
			if slices.Contains(listed, s) {
				return s, 0
			}
			return "", 2 // a soft version is fetched directly; it does not exist
		}
	}
	if len(softs) == hardIdx && best != "" {
		return best, 0
	}
	return "", 1
}

func prefModel(u gen.Universe) prefOutcome {
	byName := map[string]gen.UPkg{}
	for _, p := range u.Pkgs {
		byName[p.Name] = p
	}
	// breadth-first order of the carriers; every requirement on a target in the
	// order the traversal meets it
	type occ struct{ from, name, req string }
	var occs []occ
	seen := map[string]bool{"g:p0": true}
	queue := []string{"g:p0"}
	for len(queue) > 0 {
		cur := queue[0]
		queue = queue[1:]
		for _, r := range byName[cur].Versions[0].Reqs {
			if strings.HasPrefix(r.Name, "k:") {
				occs = append(occs, occ{cur, r.Name, r.Req})
				continue
			}
			if !seen[r.Name] {
				seen[r.Name] = true
				queue = append(queue, r.Name)
			}
		}
	}
	listed := map[string][]string{}
	for _, p := range u.Pkgs {
		for _, v := range p.Versions {
			listed[p.Name] = append(listed[p.Name], v.Version)
		}
	}
	out := prefOutcome{edges: map[string]string{}}
	// The requirements met so far survive a re-resolution; a pass ends early at
	// the first requirement that changes the version of an artifact already
	// placed, and the next pass starts with everything met so far.
	acc := map[string][]string{}
	for pass := 0; pass <= 100; pass++ {
		sel := map[string]string{}
		edges := map[string]string{}
		settled := true
		for _, o := range occs {
			if !slices.Contains(acc[o.name], o.req) {
				acc[o.name] = append(acc[o.name], o.req)
			}
			m, kind := findMatchModel(acc[o.name], listed[o.name])
			if kind == 2 {
				out.fatal = true
				return out
			}
			key := o.from + " " + o.name + "@" + o.req
			if kind == 1 {
				edges[key] = "error"
				continue
			}
			if sel[o.name] == "" || sel[o.name] == m {
				sel[o.name] = m
				edges[key] = m
				continue
			}
			acc[o.name] = append(acc[o.name], o.req)
			settled = false
			break
		}
		if settled {
			out.edges = edges
			out.passes = pass
			return out
		}
	}
	out.fatal = true
	return out
}

func prefObserved(g *resolve.Graph) map[string]string {
	got := map[string]string{}
	for _, e := range g.Edges {
		to := g.Nodes[e.To].Version
		if strings.HasPrefix(to.Name, "k:") {
			got[g.Nodes[e.From].Version.Name+" "+to.Name+"@"+e.Requirement] = to.Version
		}
	}
	for _, n := range g.Nodes {
		for _, ne := range n.Errors {
			if strings.HasPrefix(ne.Req.Name, "k:") {
				got[n.Version.Name+" "+ne.Req.Name+"@"+ne.Req.Version] = "error"
			}
		}
	}
	return got
}

func renderOutcome(m map[string]string) string {
	var ks []string
	for k, v := range m {
		ks = append(ks, k+" -> "+v)
	}
	sort.Strings(ks)
	return strings.Join(ks, "; ")
}

type prefStats struct{ softAndRange, retry, nomatch, fatal bool }

func validatePref(u gen.Universe) (obs, exp string, st prefStats, err error) {
	sch, e := schema.New(u.Text(), resolve.Maven)
	if e != nil {
		return "", "", st, fmt.Errorf("harness: schema rejects the universe: %v", e)
	}
	rvk := resolve.VersionKey{PackageKey: resolve.PackageKey{System: resolve.Maven, Name: "g:p0"}, VersionType: resolve.Concrete, Version: "1.0"}
	g, rerr := mavenresolve.NewResolver(sch.NewClient()).Resolve(context.Background(), rvk)
	want := prefModel(u)
	st.retry, st.fatal = want.passes > 0, want.fatal
	byTarget := map[string][2]bool{}
	for k, v := range want.edges {
		name := strings.SplitN(strings.SplitN(k, " ", 2)[1], "@", 2)
		b := byTarget[name[0]]
		if isRange(name[1]) {
			b[1] = true
		} else {
			b[0] = true
		}
		byTarget[name[0]] = b
		if v == "error" {
			st.nomatch = true
		}
	}
	for _, b := range byTarget {
		if b[0] && b[1] {
			st.softAndRange = true
		}
	}
	const expText = "requirements of an artifact are preferred in the order met (breadth-first): the first soft version inside every range; the first range stands for the highest listed version inside every range"
	switch {
	case want.fatal && rerr != nil:
		return "", "", st, nil
	case want.fatal:
		return fmt.Sprintf("Resolve succeeds with %s, but a range without a listed version, a chosen soft version that does not exist, or requirements that never settle call for an error", renderOutcome(prefObserved(g))), expText, st, nil
	case rerr != nil:
		return fmt.Sprintf("Resolve fails (%v); expected %s", rerr, renderOutcome(want.edges)), expText, st, nil
	}
	got := prefObserved(g)
	if a, b := renderOutcome(got), renderOutcome(want.edges); a != b {
		return fmt.Sprintf("edges to the multi-version artifacts are %s; the order of preference gives %s", a, b), expText, st, nil
	}
	return "", "", st, nil
}

func prefProp(t *rapid.T) {
	u := prefUniverse(t)
	c := rootCase{Universe: u, Root: [2]string{"g:p0", "1.0"}}
	rec.SetCase(c)
	obs, exp, st, err := validatePref(u)
	if err != nil {
		t.Fatalf("harness/oracle failure: %v", err)
	}
	rec.Eval(1)
	if st.softAndRange {
		rec.Class("target-with-soft-and-range")
	}
	if st.nomatch {
		rec.Class("no-match-node-error")
	}
	if st.retry {
		rec.Class("re-resolution")
	}
	if st.fatal {
		rec.Class("resolve-error-expected")
	}
	if st.softAndRange || st.nomatch {
		b, _ := json.Marshal(c)
		rec.NonTrivial(string(b))
		if len(b) < 1200 && rec.WantSample() {
			rec.Sample(c)
		}
	}
	if obs != "" {
		rec.Fail(t, c, obs, exp)
	}
}

func TestPreference(t *testing.T) {
	rec.Check(t, "preference/static-traversal", ev.N(3000, 400000), prefProp)
}
