// C07 — a Maven resolution graph obeys Maven's mediation rules.
package c07

import (
	"context"
	"encoding/json"
	"fmt"
	"os"
	"strings"
	"testing"

	"deps.dev/util/resolve"
	"deps.dev/util/resolve/dep"
	mavenresolve "deps.dev/util/resolve/maven"
	"deps.dev/util/resolve/schema"
	"deps.dev/util/resolve/verifh/internal/ev"
	"deps.dev/util/resolve/verifh/internal/gen"
	"deps.dev/util/resolve/verifh/internal/iso"
	"deps.dev/util/resolve/verifh/internal/known"
	"deps.dev/util/resolve/verifh/internal/oracle"
	"deps.dev/util/semver"
	"pgregory.net/rapid"
)

var rec = ev.New("C07")
var kf *known.File
var mvn *oracle.Server

func TestMain(m *testing.M) {
	kf, _ = known.Load(ev.KnownFile())
	rec.Rule("generated Maven universes (2-12 artifacts, 1-5 versions each, soft versions and hard ranges, dependencyManagement on the root, exclusions incl. wildcards, test/provided/runtime scopes, optional flags, classifiers and types incl. war/ear/rar, diamonds, cycles, missing artifacts; single registry) and every root (a sample of roots for large universes); oracle (a) on range-free universes: an independent breadth-first reference model written from the statement (nearest declaration wins, root management overrides transitive versions, exclusions accumulate along the creating path, test/optional/provided only from the root, war/ear/rar not traversed) - exact graph equality under the harness isomorphism labeller; oracle (b) on all universes: predicates - one version per artifact key, every range edge points inside its range (Maven's VersionRange), no edge to an artifact excluded along the node's creating path, no transitive test/optional/provided edge, war/ear/rar-only nodes have no out-edges, every transitive edge to an artifact the root manages carries the managed version, and the selected version being a candidate of the documented preference between soft versions and ranges (a listed soft version inside every range, or the highest listed version inside every range), tolerant of requirements made by versions no longer in the graph; oracle (c) on universes whose traversal cannot change (single-version carrier artifacts, multi-version leaf artifacts required by soft versions and ranges): a model of the documented order of preference (requirements in the order met, kept across re-resolutions; first soft version inside every range; the first range stands for the highest listed version inside every range; node error when nothing matches; Resolve error for a range without listed version or a chosen soft version that does not exist) - exact equality of every edge and node error on the multi-version artifacts. One evaluation = one (universe, root). Non-trivial: a version conflict, a range, an exclusion that removes something, or a management override applied; for (c) an artifact required by both a soft version and a range, or a requirement that ends in a node error. Distinct = distinct (universe, root). One resolver serves the sampled roots of a universe (earlier roots are part of the case); a fifth of the universes with ranges carry a typed conflict (war/ear/rar/test-jar/classifier declared by a soft version and, elsewhere, by a range that excludes it).")
	var err error
	if mvn, err = oracle.Start("mvn"); err == nil {
		rec.Extra("oracle_mvn", mvn.Version)
	} else {
		rec.Extra("oracle_unavailable_mvn", true)
	}
	code := m.Run()
	if mvn != nil {
		mvn.Close()
	}
	rec.Flush()
	os.Exit(code)
}

type rootCase struct {
	Universe gen.Universe `json:"universe"`
	Root     [2]string    `json:"root"`
	// Prior: roots resolved earlier on the same resolver (a resolver is made to
	// be used for many roots; what it returns must not depend on them).
	Prior [][2]string `json:"prior,omitempty"`
}

// ---- reference model (range-free universes) ----------------------------------

type artKey struct {
	name, classifier, typ string
}

func artOf(r resolve.RequirementVersion) artKey {
	k := artKey{name: r.Name}
	k.classifier, _ = r.Type.GetAttr(dep.MavenClassifier)
	if t, ok := r.Type.GetAttr(dep.MavenArtifactType); ok && t != "jar" {
		k.typ = t
	}
	return k
}

func exclSet(t dep.Type) map[string]bool {
	s, ok := t.GetAttr(dep.MavenExclusions)
	if !ok || s == "" {
		return nil
	}
	out := map[string]bool{}
	for _, e := range strings.FieldsFunc(s, func(r rune) bool { return r == '|' || r == ',' }) {
		out[e] = true
	}
	return out
}

func excluded(ex map[string]bool, name string) bool {
	if len(ex) == 0 {
		return false
	}
	if ex["*:*"] || ex[name] {
		return true
	}
	ga := strings.SplitN(name, ":", 2)
	if len(ga) != 2 {
		return false
	}
	return ex[ga[0]+":*"] || ex["*:"+ga[1]]
}

type modelStats struct {
	conflicts, exclusionsHit, mgmtApplied, ranges int
	stalePreference                               int // preference differences explained by requirements of versions outside the graph
	// selfRef: some followed declaration names the root's own artifact with
	// another version. The resolver answers those with an error
	// (incompatible requirements / version not found) rather than a graph, so
	// the property, which speaks of returned graphs, has nothing to say.
	selfRef bool
}

// model computes the expected graph for a range-free universe, or an error.
func model(client *resolve.LocalClient, root resolve.VersionKey, st *modelStats) (*resolve.Graph, error) {
	ctx := context.Background()
	if _, err := client.Version(ctx, root); err != nil {
		return nil, err
	}
	g := &resolve.Graph{}
	g.AddNode(root)
	// root dependencyManagement
	rootReqs, err := client.Requirements(ctx, root)
	if err != nil {
		return nil, err
	}
	mgmt := map[artKey]string{}
	for _, r := range rootReqs {
		if o, ok := r.Type.GetAttr(dep.MavenDependencyOrigin); ok && o == "management" {
			mgmt[artOf(r)] = r.Version
		}
	}
	type item struct {
		vk        resolve.VersionKey
		id        resolve.NodeID
		excl      map[string]bool
		noRecurse bool
	}
	chosen := map[artKey]string{}                  // artifact -> version decided by the nearest declaration
	chosen[artKey{name: root.Name}] = root.Version // the root occupies its own artifact
	nodeOf := map[resolve.VersionKey]resolve.NodeID{root: 0}
	visited := map[string]bool{}
	queue := []item{{vk: root, id: 0}}
	for first := true; len(queue) > 0; first = false {
		cur := queue[0]
		queue = queue[1:]
		if cur.noRecurse {
			continue
		}
		reqs, err := client.Requirements(ctx, cur.vk)
		if err != nil {
			if first {
				return nil, err
			}
			continue
		}
		for _, r := range reqs {
			if r.Type.HasAttr(dep.MavenDependencyOrigin) {
				continue
			}
			if !first {
				if r.Type.HasAttr(dep.Test) || r.Type.HasAttr(dep.Opt) {
					continue
				}
				if s, _ := r.Type.GetAttr(dep.Scope); s == "provided" {
					continue
				}
			}
			if excluded(cur.excl, r.Name) {
				st.exclusionsHit++
				continue
			}
			ak := artOf(r)
			ver := r.Version
			if mv, ok := mgmt[ak]; ok && !first {
				if mv != ver {
					st.mgmtApplied++
				}
				ver = mv
			}
			if prev, ok := chosen[ak]; ok {
				if prev != ver {
					st.conflicts++
					if ak == (artKey{name: root.Name}) {
						st.selfRef = true
					}
				}
				// nearest declaration wins: an edge to the version already chosen
				tvk := resolve.VersionKey{PackageKey: resolve.PackageKey{System: resolve.Maven, Name: r.Name}, VersionType: resolve.Concrete, Version: prev}
				g.AddEdge(cur.id, nodeOf[tvk], ver, r.Type)
				continue
			}
			tvk := resolve.VersionKey{PackageKey: resolve.PackageKey{System: resolve.Maven, Name: r.Name}, VersionType: resolve.Concrete, Version: ver}
			if _, err := client.Version(ctx, tvk); err != nil {
				return nil, fmt.Errorf("model: %s@%s: %w", r.Name, ver, err)
			}
			chosen[ak] = ver
			t := r.Type.Clone()
			id, seen := nodeOf[tvk]
			if !seen {
				id = g.AddNode(tvk)
				nodeOf[tvk] = id
				t.AddAttr(dep.Selector, "")
			}
			g.AddEdge(cur.id, id, ver, t)
			if seen {
				// The same version reached under another classifier/type has the
				// same POM: its dependencies are those of the existing node and
				// are not expanded a second time.
				continue
			}
			ex := map[string]bool{}
			for k := range cur.excl {
				ex[k] = true
			}
			for k := range exclSet(r.Type) {
				ex[k] = true
			}
			at, _ := r.Type.GetAttr(dep.MavenArtifactType)
			vkey := tvk.String() + "|" + ak.classifier + "|" + ak.typ
			_ = visited[vkey]
			queue = append(queue, item{vk: tvk, id: id, excl: ex, noRecurse: at == "war" || at == "ear" || at == "rar"})
		}
	}
	return g, nil
}

func isRange(s string) bool { return strings.ContainsAny(s, "[(") }

func universeHasRanges(u gen.Universe) bool {
	for _, p := range u.Pkgs {
		for _, v := range p.Versions {
			for _, r := range v.Reqs {
				if isRange(r.Req) {
					return true
				}
			}
		}
	}
	return false
}

func renderGraph(g *resolve.Graph) string {
	if g == nil {
		return "<nil>"
	}
	s := g.String()
	if len(s) > 1500 {
		s = s[:1500] + "..."
	}
	return s
}

// ---- predicates (all universes) ---------------------------------------------------

func predicates(client *resolve.LocalClient, g *resolve.Graph, st *modelStats) (string, string, error) {
	// the root's dependencyManagement
	mgmt := map[artKey]string{}
	if rootReqs, err := client.Requirements(context.Background(), g.Nodes[0].Version); err == nil {
		for _, r := range rootReqs {
			if o, ok := r.Type.GetAttr(dep.MavenDependencyOrigin); ok && o == "management" {
				mgmt[artOf(r)] = r.Version
			}
		}
	}
	keyOf := func(e resolve.Edge) artKey {
		k := artKey{name: g.Nodes[e.To].Version.Name}
		k.classifier, _ = e.Type.GetAttr(dep.MavenClassifier)
		if t, ok := e.Type.GetAttr(dep.MavenArtifactType); ok && t != "jar" {
			k.typ = t
		}
		return k
	}
	// (the root occupies its own artifact key without an edge saying so)
	nodeKeys := map[resolve.NodeID]map[artKey]bool{0: {artKey{name: g.Nodes[0].Version.Name}: true}}
	for _, e := range g.Edges {
		if nodeKeys[e.To] == nil {
			nodeKeys[e.To] = map[artKey]bool{}
		}
		nodeKeys[e.To][keyOf(e)] = true
	}
	firstNode := map[artKey]resolve.NodeID{}
	// 1. one version per artifact key
	ver := map[artKey]string{}
	in := map[resolve.NodeID][]resolve.Edge{}
	out := map[resolve.NodeID][]resolve.Edge{}
	for _, e := range g.Edges {
		to := g.Nodes[e.To].Version
		k := artKey{name: to.Name}
		k.classifier, _ = e.Type.GetAttr(dep.MavenClassifier)
		if t, ok := e.Type.GetAttr(dep.MavenArtifactType); ok && t != "jar" {
			k.typ = t
		}
		// 8. the root's management replaces the version of every transitive
		// declaration of the artifact, whatever the declaration says
		if mv, ok := mgmt[k]; ok && e.From != 0 && e.Requirement != mv {
			return fmt.Sprintf("transitive edge %s -[%s]-> %s@%s: the root manages this artifact to %s", g.Nodes[e.From].Version.Name, e.Requirement, to.Name, to.Version, mv), "the root's dependencyManagement overrides versions of transitive declarations", nil
		}
		if prev, ok := ver[k]; ok && prev != to.Version {
			note := ""
			// the recorded finding: the node that keeps the superseded version is
			// the one shared with another type or classifier (a soft declaration
			// reused it); a shared node on the *new* version's side is something else
			if len(nodeKeys[firstNode[k]]) > 1 {
				note = " " + sharedNodeNote
			}
			return fmt.Sprintf("artifact %v appears with versions %s and %s%s", k, prev, to.Version, note), "at most one version per artifact", nil
		}
		if _, ok := firstNode[k]; !ok {
			firstNode[k] = e.To
		}
		ver[k] = to.Version
		in[e.To] = append(in[e.To], e)
		out[e.From] = append(out[e.From], e)
		// 2. range edges point inside the range
		if isRange(e.Requirement) {
			st.ranges++
			if mvn != nil && oracle.Clean(e.Requirement, to.Version) {
				a, err := mvn.Ask("contains", e.Requirement, to.Version)
				if err != nil {
					return "", "", err
				}
				if a == "0" {
					return fmt.Sprintf("edge %s -[%s]-> %s@%s: Maven's VersionRange does not contain the version", g.Nodes[e.From].Version.Name, e.Requirement, to.Name, to.Version), "every range edge points inside its range", nil
				}
			}
		}
		// 6. no transitive test/optional/provided edge
		if e.From != 0 {
			if e.Type.HasAttr(dep.Test) || e.Type.HasAttr(dep.Opt) {
				return fmt.Sprintf("transitive edge %s -> %s has type %s", g.Nodes[e.From].Version.Name, to.Name, e.Type), "test/optional dependencies are followed only from the root", nil
			}
			if s, _ := e.Type.GetAttr(dep.Scope); s == "provided" {
				return fmt.Sprintf("transitive edge %s -> %s has scope provided", g.Nodes[e.From].Version.Name, to.Name), "provided dependencies are followed only from the root", nil
			}
		}
	}
	// 9. ordered preference, as documented on the resolver's version choice:
	// among the requirements met for an artifact in breadth-first order (the
	// order of the graph's edges), a soft version that lies inside every range
	// wins at its position, and the first range prefers, at its position, the
	// highest listed version inside every range ({1.0, 2.0} -> 1.0;
	// {1.0, [2.0,3.0]} -> 3.0; {1.0, 2.0, [2.0,3.0]} -> 2.0).
	if os.Getenv("C07_NO_PREFERENCE") == "" {
		perKey := map[artKey][]string{}
		var keyOrder []artKey
		// breadth-first order: nodes in order of discovery from the root, the
		// out-edges of a node in the order the graph lists them
		outOf := map[resolve.NodeID][]resolve.Edge{}
		for _, e := range g.Edges {
			outOf[e.From] = append(outOf[e.From], e)
		}
		var bfsEdges []resolve.Edge
		seenNode := map[resolve.NodeID]bool{0: true}
		for queue := []resolve.NodeID{0}; len(queue) > 0; queue = queue[1:] {
			for _, e := range outOf[queue[0]] {
				bfsEdges = append(bfsEdges, e)
				if !seenNode[e.To] {
					seenNode[e.To] = true
					queue = append(queue, e.To)
				}
			}
		}
		for _, e := range bfsEdges {
			k := keyOf(e)
			if _, ok := perKey[k]; !ok {
				keyOrder = append(keyOrder, k)
			}
			perKey[k] = append(perKey[k], e.Requirement)
		}
		for _, k := range keyOrder {
			reqs := perKey[k]
			var ranges []*semver.Constraint
			hasRange := false
			for _, r := range reqs {
				if isRange(r) {
					c, err := semver.Maven.ParseConstraint(r)
					if err != nil {
						hasRange = false
						ranges = nil
						break
					}
					ranges = append(ranges, c)
					hasRange = true
				}
			}
			if !hasRange {
				continue
			}
			inAll := func(v string) bool {
				for _, c := range ranges {
					if !c.Match(v) {
						return false
					}
				}
				return true
			}
			listed, err := client.Versions(context.Background(), resolve.PackageKey{System: resolve.Maven, Name: k.name})
			if err != nil {
				continue
			}
			isListed := func(ver string) bool {
				for _, v := range listed {
					if semver.Maven.Compare(v.Version, ver) == 0 {
						return true
					}
				}
				return false
			}
			best := ""
			for _, v := range listed {
				if inAll(v.Version) && (best == "" || semver.Maven.Compare(v.Version, best) > 0) {
					best = v.Version
				}
			}
			expected := ""
			seenRange := false
			for _, r := range reqs {
				if isRange(r) {
					if !seenRange && best != "" {
						expected = best
						break
					}
					seenRange = true
					continue
				}
				// (a soft version that is not listed is only looked up at the very
				// end by the resolver and ends in an error: not a candidate here)
				if inAll(r) && isListed(r) {
					expected = r
					break
				}
			}
			if expected == "" && best != "" && !seenRange {
				expected = best
			}
			if expected != "" && ver[k] != expected && semver.Maven.Compare(ver[k], expected) != 0 {
				// Requirements met in an earlier pass survive the re-resolution
				// even when the version that made them is no longer in the graph
				// (as Maven's own conflict resolution keeps range constraints of
				// losing nodes): a requirement of a version outside the graph that
				// rules the expected version out, or that names the selected one,
				// explains the difference.
				// (also a requirement of a version in the graph that ended in a node
				// error instead of an edge)
				onEdge := map[string]bool{}
				for _, r := range reqs {
					onEdge[r] = true
				}
				// The order in which the requirements were met is not visible in
				// the graph either: a re-resolution keeps the order of the earlier
				// passes, whose traversal may have been another one. Any candidate
				// of the documented preference is therefore accepted here (the
				// highest listed version inside every range, or a listed soft
				// version inside every range); the order itself is checked on
				// universes whose traversal cannot change (preference_test.go).
				explained := semver.Maven.Compare(ver[k], best) == 0 && best != ""
				for _, r := range reqs {
					if !isRange(r) && inAll(r) && isListed(r) && semver.Maven.Compare(ver[k], r) == 0 {
						explained = true
					}
				}
				for pk, vs := range client.PackageVersions {
					for _, v := range vs {
						if explained {
							continue
						}
						rs, _ := client.Requirements(context.Background(), v.VersionKey)
						for _, r := range rs {
							if artOf(r) != k || onEdge[r.Version] {
								continue
							}
							if isRange(r.Version) {
								if c, err := semver.Maven.ParseConstraint(r.Version); err == nil {
									if !c.Match(expected) {
										explained = true
									}
									// ... or, met first, it made the highest listed version
									// inside it (and inside the ranges that remain) the choice
									top := ""
									for _, v := range listed {
										if inAll(v.Version) && c.Match(v.Version) && (top == "" || semver.Maven.Compare(v.Version, top) > 0) {
											top = v.Version
										}
									}
									if top != "" && semver.Maven.Compare(top, ver[k]) == 0 {
										explained = true
									}
								}
							} else if semver.Maven.Compare(r.Version, ver[k]) == 0 {
								explained = true
							}
						}
					}
					_ = pk
				}
				if explained {
					st.stalePreference++
					continue
				}
				return fmt.Sprintf("artifact %v: requirements in breadth-first order %q select %s; the documented preference gives %s", k, reqs, ver[k], expected), "first soft version inside every range, the first range preferring the highest listed version inside every range", nil
			}
		}
	}
	// the root artifact itself is not replaced by another version
	for k, v := range ver {
		if k.name == g.Nodes[0].Version.Name && k.classifier == "" && k.typ == "" && v != g.Nodes[0].Version.Version {
			return fmt.Sprintf("the root artifact %s@%s also appears as version %s", k.name, g.Nodes[0].Version.Version, v), "at most one version per artifact", nil
		}
	}
	// 5. exclusions along the creating (Selector) path
	creator := map[resolve.NodeID]resolve.Edge{}
	for _, e := range g.Edges {
		if e.Type.HasAttr(dep.Selector) {
			if _, ok := creator[e.To]; !ok {
				creator[e.To] = e
			}
		}
	}
	pathExcl := func(n resolve.NodeID) map[string]bool {
		ex := map[string]bool{}
		for hops := 0; n != 0 && hops <= len(g.Nodes); hops++ {
			c, ok := creator[n]
			if !ok {
				break
			}
			for k := range exclSet(c.Type) {
				ex[k] = true
			}
			n = c.From
		}
		return ex
	}
	for n, es := range out {
		ex := pathExcl(n)
		for _, e := range es {
			if excluded(ex, g.Nodes[e.To].Version.Name) {
				// A node shared between two artifact keys (same version reached with and
				// without a classifier/type) may carry edges created on another path.
				if len(nodeKeys[n]) > 1 {
					continue
				}
				return fmt.Sprintf("node %s has an edge to %s, which is excluded along the node's creating path (%v)", g.Nodes[n].Version.Name, g.Nodes[e.To].Version.Name, ex), "an artifact excluded on a path is not reached through that path", nil
			}
		}
	}
	// 7. war/ear/rar-only nodes are not traversed
	for n, es := range in {
		all := len(es) > 0
		for _, e := range es {
			t, _ := e.Type.GetAttr(dep.MavenArtifactType)
			if t != "war" && t != "ear" && t != "rar" {
				all = false
			}
		}
		if all && len(out[n]) > 0 && n != 0 {
			return fmt.Sprintf("node %s is only reached as war/ear/rar but has %d outgoing edges", g.Nodes[n].Version.Name, len(out[n])), "war/ear/rar artifacts are not traversed", nil
		}
	}
	return "", "", nil
}

func validate(u gen.Universe, root [2]string, prior ...[2]string) (obs, exp string, st modelStats, status string, err error) {
	sch, e := schema.New(u.Text(), resolve.Maven)
	if e != nil {
		return "", "", st, "", fmt.Errorf("harness: schema rejects the universe: %v", e)
	}
	client := sch.NewClient()
	rvk := resolve.VersionKey{PackageKey: resolve.PackageKey{System: resolve.Maven, Name: root[0]}, VersionType: resolve.Concrete, Version: root[1]}
	resolver := mavenresolve.NewResolver(client)
	for _, p := range prior {
		resolver.Resolve(context.Background(), resolve.VersionKey{PackageKey: resolve.PackageKey{System: resolve.Maven, Name: p[0]}, VersionType: resolve.Concrete, Version: p[1]})
	}
	g, rerr := resolver.Resolve(context.Background(), rvk)
	if !universeHasRanges(u) {
		mclient := sch.NewClient()
		mg, merr := model(mclient, rvk, &st)
		switch {
		case merr != nil && rerr == nil:
			return fmt.Sprintf("the reference model fails (%v) but Resolve succeeds with\n%s", merr, renderGraph(g)), "same outcome", st, "ok", nil
		case merr == nil && rerr != nil && st.selfRef:
			return "", "", st, "resolve-error-on-root-self-reference", nil
		case merr == nil && rerr != nil:
			return fmt.Sprintf("Resolve fails (%v) but the reference model yields\n%s", rerr, renderGraph(mg)), "same outcome", st, "ok", nil
		case merr == nil:
			a, b := iso.FromResolve(g).Canon(), iso.FromResolve(mg).Canon()
			if a != "" && b != "" && a != b {
				return fmt.Sprintf("graph differs from the breadth-first reference model:\n--- Resolve ---\n%s--- model ---\n%s", renderGraph(g), renderGraph(mg)), "nearest declaration wins, management, exclusions, scopes as stated", st, "ok", nil
			}
		}
	}
	if rerr != nil {
		return "", "", st, "resolve-error", nil
	}
	o, e2, perr := predicates(client, g, &st)
	if perr != nil {
		return "", "", st, "", perr
	}
	return o, e2, st, "ok", nil
}

// SharedNodeKeepsSupersededVersion: an artifact is declared under two keys
// (say test-jar and jar) that resolve to the same version node; a soft
// declaration of one key reuses that node; a range met later selects another
// version for that key, but the edge that reused the node is not revisited, so
// the key ends up with two versions. The predicate marks such observations.
func knownClass(u gen.Universe, obs string) string {
	if strings.Contains(obs, "appears with versions") && strings.Contains(obs, sharedNodeNote) && kf.Open("C07", "SharedNodeKeepsSupersededVersion") {
		return "SharedNodeKeepsSupersededVersion"
	}
	return ""
}

const sharedNodeNote = "(the node of the first version is also reached under another type or classifier of the artifact)"

func prop(noRanges bool) func(*rapid.T) {
	return func(t *rapid.T) {
		u := gen.MavenUniverse(gen.MavenUOpts{NoRanges: noRanges}).Draw(t, "universe")
		roots := u.Roots()
		if len(roots) == 0 {
			return
		}
		var idx []int
		if len(roots) <= 6 {
			for i := range roots {
				idx = append(idx, i)
			}
		} else {
			for k := 0; k < 4; k++ {
				idx = append(idx, rapid.IntRange(0, len(roots)-1).Draw(t, "root"))
			}
		}
		var prior [][2]string
		for _, i := range idx {
			c := rootCase{u, roots[i], append([][2]string(nil), prior...)}
			rec.SetCase(c)
			obs, exp, st, status, err := validate(u, roots[i], prior...)
			prior = append(prior, roots[i])
			if err != nil {
				t.Fatalf("harness/oracle failure: %v", err)
			}
			if status != "ok" {
				rec.ExcludedDomain(status)
				continue
			}
			rec.Eval(1)
			if st.conflicts > 0 {
				rec.Class("version-conflict")
			}
			if st.ranges > 0 {
				rec.Class("range-edge")
			}
			if st.exclusionsHit > 0 {
				rec.Class("exclusion-removed-something")
			}
			if st.mgmtApplied > 0 {
				rec.Class("management-override-applied")
			}
			if st.conflicts > 0 || st.ranges > 0 || st.exclusionsHit > 0 || st.mgmtApplied > 0 {
				b, _ := json.Marshal(c)
				rec.NonTrivial(string(b))
				if len(b) < 1200 && rec.WantSample() {
					rec.Sample(c)
				}
			}
			if obs != "" {
				if cl := knownClass(u, obs); cl != "" {
					rec.ExcludedKnown(cl)
					continue
				}
				rec.Fail(t, c, obs, exp)
			}
		}
	}
}

func TestCorpus(t *testing.T) {
	rec.SetCheck("corpus")
	for _, fd := range kf.For("C07") {
		var c rootCase
		if err := json.Unmarshal(fd.Witness, &c); err != nil {
			t.Fatalf("bad witness %s: %v", fd.ID, err)
		}
		if obs, _, _, _, _ := validate(c.Universe, c.Root, c.Prior...); obs != "" {
			rec.Known(fd.ID, fd.Text+" ["+strings.SplitN(obs, "\n", 2)[0]+"]")
		}
	}
}

func TestMediation(t *testing.T) {
	rec.Check(t, "model/range-free", ev.N(1200, 150000), prop(true))
	rec.Check(t, "predicates/with-ranges", ev.N(1000, 150000), prop(false))
}

func TestReplay(t *testing.T) {
	path := ev.ReplayFile()
	if path == "" {
		t.Skip("no replay file")
	}
	var c rootCase
	check, err := ev.ReadReplay(path, &c)
	if err != nil {
		t.Fatal(err)
	}
	if strings.HasPrefix(check, "preference/") {
		obs, exp, _, err := validatePref(c.Universe)
		if err != nil {
			t.Fatal(err)
		}
		if obs != "" {
			t.Fatalf("replay fails: %s (expected %s)", obs, exp)
		}
		return
	}
	obs, exp, _, _, err := validate(c.Universe, c.Root, c.Prior...)
	if err != nil {
		t.Fatal(err)
	}
	if obs != "" && knownClass(c.Universe, obs) == "" {
		t.Fatalf("replay fails: %s (expected %s)", obs, exp)
	}
}
