package c07

import (
	"encoding/json"
	"os"
	"strings"
	"testing"

	"deps.dev/util/resolve/verifh/internal/gen"
)

// TestMinimize (development aid): VERIF_MINIMIZE=<replay file or case JSON>
// VERIF_MINIMIZE_KIND=<substring of the observation>.
func TestMinimize(t *testing.T) {
	path := os.Getenv("VERIF_MINIMIZE")
	if path == "" {
		t.Skip("VERIF_MINIMIZE not set")
	}
	b, err := os.ReadFile(path)
	if err != nil {
		t.Fatal(err)
	}
	var c rootCase
	var doc struct {
		Case rootCase `json:"case"`
	}
	if json.Unmarshal(b, &doc) == nil && len(doc.Case.Universe.Pkgs) > 0 {
		c = doc.Case
	} else if err := json.Unmarshal(b, &c); err != nil {
		t.Fatal(err)
	}
	kind := os.Getenv("VERIF_MINIMIZE_KIND")
	fails := func(u gen.Universe) bool {
		obs, _, _, _, err := validate(u, c.Root, c.Prior...)
		return err == nil && obs != "" && strings.Contains(obs, kind)
	}
	if !fails(c.Universe) {
		t.Fatal("case does not fail with that kind")
	}
	u := gen.MinimizeUniverse(c.Universe, fails)
	obs, _, _, _, _ := validate(u, c.Root, c.Prior...)
	out, _ := json.Marshal(rootCase{u, c.Root, c.Prior})
	t.Logf("minimal:\nroot %v\n%s\n%s\nJSON: %s", c.Root, u.Text(), obs, out)
}
