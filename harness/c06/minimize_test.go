//go:build verif

package c06

import (
	"encoding/json"
	"os"
	"strings"
	"testing"

	"deps.dev/util/resolve/verifh/internal/ev"
	"deps.dev/util/resolve/verifh/internal/gen"
)

// TestMinimize is a development aid: VERIF_MINIMIZE=<replay file> greedily
// deletes packages, versions, requirements and attributes while the same kind
// of violation persists, and prints the minimal universe.
func TestMinimize(t *testing.T) {
	path := os.Getenv("VERIF_MINIMIZE")
	if path == "" {
		t.Skip("VERIF_MINIMIZE not set")
	}
	var c rootCase
	if _, err := ev.ReadReplay(path, &c); err != nil {
		t.Fatal(err)
	}
	kind := func(obs string) string {
		for _, k := range []string{"Node's lookup", "does not satisfy", "neither an edge", "installs afresh", "two entries", "not reachable"} {
			if strings.Contains(obs, k) {
				return k
			}
		}
		return obs
	}
	obs0, _, _, _, _ := validate(c.Universe, c.Root, &satTable{})
	if obs0 == "" {
		t.Fatal("replay does not fail")
	}
	want := kind(obs0)
	fails := func(u gen.Universe) bool {
		obs, _, _, _, err := validate(u, c.Root, &satTable{})
		return err == nil && obs != "" && kind(obs) == want
	}
	clone := func(u gen.Universe) gen.Universe {
		b, _ := json.Marshal(u)
		var v gen.Universe
		json.Unmarshal(b, &v)
		return v
	}
	u := c.Universe
	for changed := true; changed; {
		changed = false
		for i := 0; i < len(u.Pkgs); i++ {
			v := clone(u)
			v.Pkgs = append(v.Pkgs[:i], v.Pkgs[i+1:]...)
			if fails(v) {
				u, changed = v, true
				i--
			}
		}
		for i := range u.Pkgs {
			for j := 0; j < len(u.Pkgs[i].Versions); j++ {
				v := clone(u)
				v.Pkgs[i].Versions = append(v.Pkgs[i].Versions[:j], v.Pkgs[i].Versions[j+1:]...)
				if fails(v) {
					u, changed = v, true
					j--
				}
			}
		}
		for i := range u.Pkgs {
			for j := range u.Pkgs[i].Versions {
				for k := 0; k < len(u.Pkgs[i].Versions[j].Reqs); k++ {
					v := clone(u)
					rs := v.Pkgs[i].Versions[j].Reqs
					v.Pkgs[i].Versions[j].Reqs = append(rs[:k], rs[k+1:]...)
					if fails(v) {
						u, changed = v, true
						k--
					}
				}
				for k := 0; k < len(u.Pkgs[i].Versions[j].Attrs); k++ {
					v := clone(u)
					as := v.Pkgs[i].Versions[j].Attrs
					v.Pkgs[i].Versions[j].Attrs = append(as[:k], as[k+1:]...)
					if fails(v) {
						u, changed = v, true
						k--
					}
				}
			}
		}
	}
	obs, _, _, _, _ := validate(u, c.Root, &satTable{})
	b, _ := json.Marshal(rootCase{u, c.Root})
	t.Logf("minimal (%s):\nroot %v\n%s\n%s\nJSON: %s", want, c.Root, u.Text(), obs, b)
}
