//go:build verif

// C06 — an npm resolution graph is a valid, loadable node_modules installation.
package c06

import (
	"context"
	"encoding/json"
	"errors"
	"fmt"
	"os"
	"sort"
	"strings"
	"testing"
	"time"

	"deps.dev/util/resolve"
	"deps.dev/util/resolve/dep"
	npmresolve "deps.dev/util/resolve/npm"
	"deps.dev/util/resolve/schema"
	"deps.dev/util/resolve/verifh/internal/ev"
	"deps.dev/util/resolve/verifh/internal/gen"
	"deps.dev/util/resolve/verifh/internal/known"
	"deps.dev/util/resolve/verifh/internal/oracle"
	"deps.dev/util/resolve/version"
	"pgregory.net/rapid"
)

var rec = ev.New("C06")
var kf *known.File
var npmOracle *oracle.Server

func TestMain(m *testing.M) {
	kf, _ = known.Load(ev.KnownFile())
	rec.Rule("generated npm universes (2-12 packages, 1-5 versions each incl. prereleases, Blocked and latest/next-tagged versions, regular/optional/dev/peer/bundle-scoped requirements, ranges of every operator kind, tags, unsatisfiable requirements, cycles, diamond conflicts, aliases) and every root; oracle = validity predicates over the returned graph and the final install tree (verif hook), with requirement satisfaction tabulated by node-semver (7.x and 5.7.1, asserted where they agree): (1) every edge target satisfies its requirement (range, tag/exact string, or * reusing an installed copy), (2) every surviving requirement has an edge or a node error, (3) every node reachable from the root, (4) a fresh install picks latest if it satisfies, else the highest non-Blocked satisfying version, else the highest, (5) no directory holds two entries of one name, (6) Node's walk-up lookup from the dependent lands on the edge's target. One evaluation = one (universe, root) resolution checked. Non-trivial: nested install (tree depth >= 2), dedup hit, alias or node error. Distinct = distinct (universe, root). A Resolve that fails on a universe whose root exists is a violation too (requirements that cannot be resolved are node errors); aliases may name a real package, carry a dist-tag, or be declared at two places; a second version of a package may carry tags whose names contain a dist-tag name.")
	var err error
	if npmOracle, err = oracle.Start("npm"); err == nil {
		rec.Extra("oracle_npm", npmOracle.Version)
	} else {
		rec.Extra("oracle_unavailable_npm", true)
	}
	code := m.Run()
	if npmOracle != nil {
		npmOracle.Close()
	}
	rec.Flush()
	os.Exit(code)
}

type rootCase struct {
	Universe gen.Universe `json:"universe"`
	Root     [2]string    `json:"root"`
}

// satTable answers "does version v satisfy requirement req" from node-semver.
type satTable struct {
	cache map[string]string // req -> per-version answers keyed by version list
	drift bool
}

func (s *satTable) sat(req string, versions []string) (map[string]bool, bool, error) {
	// returns satisfied set; isRange=false when node does not read req as a range
	key := req + "\x00" + strings.Join(versions, "\x00")
	if s.cache == nil {
		s.cache = map[string]string{}
	}
	ans, ok := s.cache[key]
	if !ok {
		if !oracle.Clean(req) || !oracle.Clean(versions...) {
			return nil, false, fmt.Errorf("unclean requirement")
		}
		a7, a5, err := npmOracle.Ask2(append([]string{"satm", req}, versions...)...)
		if err != nil {
			return nil, false, err
		}
		if a5 != "-" && a5 != a7 {
			s.drift = true
		}
		ans = a7
		s.cache[key] = ans
	}
	if ans == "E" {
		return nil, false, nil
	}
	out := map[string]bool{}
	for i, v := range versions {
		if i < len(ans) && ans[i] == '1' {
			out[v] = true
		}
	}
	return out, true, nil
}

func hasTag(tags, tag string) bool {
	for _, t := range strings.Split(tags, ",") {
		if t == tag {
			return true
		}
	}
	return false
}

type pkgInfo struct {
	versions []string
	attrs    map[string]version.AttrSet
}

// survivingReqs applies the documented filter to a version's requirements.
func survivingReqs(reqs []resolve.RequirementVersion) []resolve.RequirementVersion {
	// package.json sections are keyed by the dependency's name (the alias, if
	// aliased): an optionalDependencies entry overrides the dependencies entry
	// of the same name, and a bundleDependencies entry names a dependency.
	reg, opt := map[string]bool{}, map[string]bool{}
	for _, d := range reqs {
		if d.Type.HasAttr(dep.Dev) {
			continue
		}
		if d.Type.HasAttr(dep.Opt) {
			opt[depName(d.Type, d.Name)] = true
		}
		if d.Type.IsRegular() {
			reg[d.Name] = true
		}
	}
	var out []resolve.RequirementVersion
	for _, d := range reqs {
		if d.Type.HasAttr(dep.Dev) {
			continue
		}
		if !d.Type.HasAttr(dep.Opt) && opt[depName(d.Type, d.Name)] {
			continue
		}
		switch scope, _ := d.Type.GetAttr(dep.Scope); scope {
		case "bundle":
			if reg[d.Name] {
				continue
			}
		case "peer":
			continue
		}
		out = append(out, d)
	}
	return out
}

func depName(t dep.Type, pkg string) string {
	if a, ok := t.GetAttr(dep.KnownAs); ok {
		return a
	}
	return pkg
}

type stats struct {
	depth     int
	dedup     int
	alias     int
	nodeErrs  int
	latestPre int
}

// validate checks the six clauses; returns the first violation.
func validate(u gen.Universe, root [2]string, st *satTable) (obs, exp string, s stats, status string, err error) {
	sch, e := schema.New(u.Text(), resolve.NPM)
	if e != nil {
		return "", "", s, "", fmt.Errorf("harness: schema rejects the universe: %v", e)
	}
	client := sch.NewClient()
	pkgs := map[string]*pkgInfo{}
	for _, p := range sch.Packages {
		pi := &pkgInfo{attrs: map[string]version.AttrSet{}}
		for _, v := range p.Versions {
			pi.versions = append(pi.versions, v.Version)
			pi.attrs[v.Version] = v.Attr
		}
		pkgs[p.Name] = pi
	}
	var tree *npmresolve.VerifTreeNode
	npmresolve.VerifTreeHook = func(r *npmresolve.VerifTreeNode) { tree = r }
	defer func() { npmresolve.VerifTreeHook = nil }()
	rvk := resolve.VersionKey{PackageKey: resolve.PackageKey{System: resolve.NPM, Name: root[0]}, VersionType: resolve.Concrete, Version: root[1]}
	ctx, cancel := context.WithTimeout(context.Background(), 5*time.Second)
	g, e := npmresolve.NewResolver(client).Resolve(ctx, rvk)
	timedOut := errors.Is(ctx.Err(), context.DeadlineExceeded) // (before cancel: afterwards Err is never nil)
	cancel()
	if e != nil {
		if timedOut {
			// the recorded npm non-termination (C04): an alias repeated along a cycle
			return "", "", s, "resolver-did-not-return-within-5s (C04 finding)", nil
		}
		// The root exists and every requirement that cannot be met is to be
		// reported on its node: Resolve has no reason to fail as a whole.
		return fmt.Sprintf("Resolve fails on a universe whose root exists: %v", e), "a graph (requirements that cannot be resolved are node errors)", s, "ok", nil
	}
	if tree == nil {
		return "", "", s, "", fmt.Errorf("harness: the verif hook did not fire (binary built without -tags verif?)")
	}
	if g.Nodes[0].Version != rvk {
		return fmt.Sprintf("node 0 is %v, root is %v", g.Nodes[0].Version, rvk), "node 0 is the root", s, "ok", nil
	}
	// index the tree by graph node
	byID := map[int]*npmresolve.VerifTreeNode{}
	parent := map[*npmresolve.VerifTreeNode]*npmresolve.VerifTreeNode{}
	var walk func(n *npmresolve.VerifTreeNode, depth int) (string, string)
	walk = func(n *npmresolve.VerifTreeNode, depth int) (string, string) {
		if depth > s.depth {
			s.depth = depth
		}
		if n.Alias {
			s.alias++
		}
		if prev, dup := byID[n.NodeID]; dup {
			return fmt.Sprintf("graph node %d stands for two install-tree entries (%s@%s and %s@%s)", n.NodeID, prev.Package, prev.Version, n.Package, n.Version), "one tree entry per node"
		}
		byID[n.NodeID] = n
		if n.NodeID < 0 || n.NodeID >= len(g.Nodes) {
			return fmt.Sprintf("tree entry %s@%s has node id %d outside the graph", n.Package, n.Version, n.NodeID), "valid node id"
		}
		if gv := g.Nodes[n.NodeID].Version; gv.Name != n.Package || gv.Version != n.Version {
			return fmt.Sprintf("tree entry %s@%s carries node id %d, which is %s@%s in the graph", n.Package, n.Version, n.NodeID, gv.Name, gv.Version), "tree and graph agree"
		}
		seen := map[string]bool{}
		for _, c := range n.Children {
			// clause 5
			if seen[c.Name] {
				return fmt.Sprintf("directory of %s@%s holds two entries named %q", n.Package, n.Version, c.Name), "no directory holds two packages of one name"
			}
			seen[c.Name] = true
			parent[c] = n
			if o, e := walk(c, depth+1); o != "" {
				return o, e
			}
		}
		return "", ""
	}
	if o, e := walk(tree, 0); o != "" {
		return o, e, s, "ok", nil
	}
	if len(byID) != len(g.Nodes) {
		return fmt.Sprintf("graph has %d nodes, install tree has %d entries", len(g.Nodes), len(byID)), "one tree entry per node", s, "ok", nil
	}
	// clause 3: reachability
	adj := map[int][]int{}
	for _, e := range g.Edges {
		adj[int(e.From)] = append(adj[int(e.From)], int(e.To))
	}
	reach := map[int]bool{0: true}
	stack := []int{0}
	for len(stack) > 0 {
		n := stack[len(stack)-1]
		stack = stack[:len(stack)-1]
		for _, m := range adj[n] {
			if !reach[m] {
				reach[m] = true
				stack = append(stack, m)
			}
		}
	}
	for i := range g.Nodes {
		if !reach[i] {
			return fmt.Sprintf("node %d (%s@%s) is not reachable from the root", i, g.Nodes[i].Version.Name, g.Nodes[i].Version.Version), "every node reachable from the root", s, "ok", nil
		}
	}
	// lookup: Node's walk-up from a tree entry
	lookup := func(from *npmresolve.VerifTreeNode, name string) *npmresolve.VerifTreeNode {
		for n := from; n != nil; n = parent[n] {
			for _, c := range n.Children {
				if c.Name == name {
					return c
				}
			}
		}
		return nil
	}
	// clause 1, 4, 6 over edges
	type ekey struct {
		from int
		name string
		req  string
	}
	edgeFor := map[ekey]bool{}
	for _, e := range g.Edges {
		from, to := g.Nodes[e.From].Version, g.Nodes[e.To].Version
		dname := depName(e.Type, to.Name)
		// A plain requirement may be answered by a copy installed under that
		// name as an alias of another package (reuse is by name): the edge then
		// leads to a package whose own name differs from the dependency name.
		// Take the name from the dependent's requirements with this requirement
		// string whose lookup lands on the target.
		if _, aliased := e.Type.GetAttr(dep.KnownAs); !aliased {
			if reqs, err := client.Requirements(context.Background(), from); err == nil {
				for _, r := range reqs {
					if r.Version != e.Requirement {
						continue
					}
					if n := depName(r.Type, r.Name); n != dname && lookup(byID[int(e.From)], n) == byID[int(e.To)] && lookup(byID[int(e.From)], dname) != byID[int(e.To)] {
						dname = n
						break
					}
				}
			}
		}
		// An edge stands for the requirement with its dependency name (alias
		// if any) and requirement string. The target need not be the package
		// the requirement names: like npm 6, the resolver reuses whatever is
		// installed under that name when its version satisfies the range
		// (pinned by the repository's alias3 / aliasCollision tests).
		edgeFor[ekey{int(e.From), dname, e.Requirement}] = true
		pi := pkgs[to.Name]
		if pi == nil {
			return fmt.Sprintf("edge %s@%s -> %s@%s: target package unknown to the universe", from.Name, from.Version, to.Name, to.Version), "target exists", s, "ok", nil
		}
		sat, isRange, err := st.sat(e.Requirement, pi.versions)
		if err != nil {
			return "", "", s, "", err
		}
		fresh := e.Type.HasAttr(dep.Selector)
		if !fresh {
			s.dedup++
		}
		ok := false
		switch {
		case isRange && sat[to.Version]:
			ok = true
		case !isRange:
			tags, _ := pi.attrs[to.Version].GetAttr(version.Tags)
			ok = to.Version == e.Requirement || hasTag(tags, e.Requirement)
		}
		if !ok && e.Requirement == "*" && !fresh {
			ok = true // * reuses whatever copy is already installed on the lookup path
		}
		if !ok {
			return fmt.Sprintf("edge %s@%s -[%s]-> %s@%s: the target does not satisfy the requirement (node-semver), fresh=%v", from.Name, from.Version, e.Requirement, to.Name, to.Version, fresh), "every edge leads to a version satisfying its requirement", s, "ok", nil
		}
		// clause 6
		fromT, toT := byID[int(e.From)], byID[int(e.To)]
		if got := lookup(fromT, dname); got != toT {
			gs := "nothing"
			if got != nil {
				gs = fmt.Sprintf("%s@%s (node %d)", got.Package, got.Version, got.NodeID)
			}
			return fmt.Sprintf("edge %s@%s -[%s as %q]-> %s@%s (node %d): Node's lookup from the dependent finds %s", from.Name, from.Version, e.Requirement, dname, to.Name, to.Version, e.To, gs), "the lookup lands on the edge's target", s, "ok", nil
		}
		// clause 4
		if fresh && isRange {
			var latest string
			hasRelease, latestIsPre := false, false
			for _, v := range pi.versions {
				if !strings.Contains(v, "-") {
					hasRelease = true
				}
				if tags, _ := pi.attrs[v].GetAttr(version.Tags); hasTag(tags, "latest") {
					latest = v
					latestIsPre = strings.Contains(v, "-")
				}
			}
			if latest != "" && latestIsPre && hasRelease {
				s.latestPre++
				continue
			}
			want := ""
			if latest != "" && sat[latest] {
				want = latest
			} else {
				var cands, unblocked []string
				for _, v := range pi.versions {
					if sat[v] {
						cands = append(cands, v)
						if !pi.attrs[v].HasAttr(version.Blocked) {
							unblocked = append(unblocked, v)
						}
					}
				}
				pool := unblocked
				if len(pool) == 0 {
					pool = cands
				}
				want, err = highest(pool)
				if err != nil {
					return "", "", s, "", err
				}
			}
			if want != to.Version {
				return fmt.Sprintf("edge %s@%s -[%s]-> %s@%s installs afresh; latest=%q, candidates by node-semver %v: expected %s", from.Name, from.Version, e.Requirement, to.Name, to.Version, latest, keys(sat), want), "latest if it satisfies, else highest non-deprecated satisfying version, else highest", s, "ok", nil
			}
		}
	}
	// clause 2: every surviving requirement has an edge or a node error
	for i, n := range g.Nodes {
		reqs, err := client.Requirements(context.Background(), n.Version)
		if err != nil {
			continue
		}
		errFor := map[string]bool{}
		for _, ne := range n.Errors {
			errFor[ne.Req.Name+"|"+ne.Req.Version] = true
			s.nodeErrs++
		}
		for _, d := range survivingReqs(reqs) {
			dn := depName(d.Type, d.Name)
			if edgeFor[ekey{i, dn, d.Version}] || errFor[d.Name+"|"+d.Version] {
				continue
			}
			return fmt.Sprintf("node %s@%s: requirement %s@%s [%s] has neither an edge nor a node error", n.Version.Name, n.Version.Version, d.Name, d.Version, d.Type), "every non-dev, non-peer requirement is resolved or reported", s, "ok", nil
		}
	}
	if st.drift {
		return "", "", s, "reference-drift", nil
	}
	return "", "", s, "ok", nil
}

func keys(m map[string]bool) []string {
	var out []string
	for k := range m {
		out = append(out, k)
	}
	sort.Strings(out)
	return out
}

// highest returns the highest version by node-semver.
func highest(vs []string) (string, error) {
	if len(vs) == 0 {
		return "", nil
	}
	best := vs[0]
	for _, v := range vs[1:] {
		a7, a5, err := npmOracle.Ask2("cmp", v, best)
		if err != nil {
			return "", err
		}
		_ = a5
		if a7 == "1" {
			best = v
		}
	}
	return best, nil
}

func knownClass(obs string) string { return "" }

func prop(t *rapid.T) {
	u := gen.NPMUniverse(gen.NPMOpts{Aliases: true, RealNameAliases: true}).Draw(t, "universe")
	roots := u.Roots()
	if len(roots) == 0 {
		return
	}
	// all roots of small universes, a sample of larger ones
	idx := []int{rapid.IntRange(0, len(roots)-1).Draw(t, "root")}
	if len(roots) <= 6 {
		idx = idx[:0]
		for i := range roots {
			idx = append(idx, i)
		}
	} else {
		for k := 0; k < 3; k++ {
			idx = append(idx, rapid.IntRange(0, len(roots)-1).Draw(t, "root2"))
		}
	}
	st := &satTable{}
	for _, i := range idx {
		c := rootCase{u, roots[i]}
		rec.SetCase(c)
		obs, exp, s, status, err := validate(u, roots[i], st)
		if err != nil {
			t.Fatalf("harness/oracle failure: %v", err)
		}
		if status != "ok" {
			rec.ExcludedDomain(status)
			continue
		}
		rec.Eval(1)
		if s.latestPre > 0 {
			rec.ClassN("latest-on-prerelease-with-releases (clause 4 not asserted)", s.latestPre)
		}
		if s.depth >= 2 {
			rec.Class("nested-install")
		}
		if s.dedup > 0 {
			rec.Class("dedup-hit")
		}
		if s.alias > 0 {
			rec.Class("alias")
		}
		if s.nodeErrs > 0 {
			rec.Class("node-error")
		}
		if s.depth >= 2 || s.dedup > 0 || s.alias > 0 || s.nodeErrs > 0 {
			b, _ := json.Marshal(c)
			rec.NonTrivial(string(b))
			if len(b) < 1200 && rec.WantSample() {
				rec.Sample(c)
			}
		}
		if obs != "" {
			if cl := knownClass(obs); cl != "" {
				rec.ExcludedKnown(cl)
				continue
			}
			rec.Fail(t, c, obs, exp)
		}
	}
}

func TestCorpus(t *testing.T) {
	rec.SetCheck("corpus")
	if npmOracle == nil {
		return
	}
	for _, fd := range kf.For("C06") {
		var c rootCase
		if err := json.Unmarshal(fd.Witness, &c); err != nil {
			t.Fatalf("bad witness %s: %v", fd.ID, err)
		}
		if obs, _, _, _, _ := validate(c.Universe, c.Root, &satTable{}); obs != "" {
			rec.Known(fd.ID, fd.Text+" ["+obs+"]")
		}
	}
}

func TestInstalls(t *testing.T) {
	if npmOracle == nil {
		t.Skip("node-semver unavailable")
	}
	rec.Check(t, "install", ev.N(4000, 200000), prop)
}

func TestReplay(t *testing.T) {
	path := ev.ReplayFile()
	if path == "" {
		t.Skip("no replay file")
	}
	if npmOracle == nil {
		t.Skip("node-semver unavailable")
	}
	var c rootCase
	if _, err := ev.ReadReplay(path, &c); err != nil {
		t.Fatal(err)
	}
	obs, exp, _, _, err := validate(c.Universe, c.Root, &satTable{})
	if err != nil {
		t.Fatal(err)
	}
	if obs != "" && knownClass(obs) == "" {
		t.Fatalf("replay fails: %s (expected %s)", obs, exp)
	}
}
