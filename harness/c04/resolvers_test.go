package c04

import (
	"context"
	"encoding/json"
	"fmt"
	"strings"
	"testing"

	pb "deps.dev/api/v3"
	"deps.dev/util/resolve"
	mavenresolve "deps.dev/util/resolve/maven"
	npmresolve "deps.dev/util/resolve/npm"
	pypiresolve "deps.dev/util/resolve/pypi"
	"deps.dev/util/resolve/schema"
	"deps.dev/util/resolve/verifh/internal/ev"
	"deps.dev/util/resolve/verifh/internal/gen"
	"deps.dev/util/semver"
	"google.golang.org/grpc"
	"google.golang.org/grpc/codes"
	"google.golang.org/grpc/status"
	"pgregory.net/rapid"
)

// ---- group: resolvers over universes with arbitrary requirement strings -------

func resolveAll(sys resolve.System, text string) bool {
	s, err := schema.New(text, sys)
	if err != nil {
		return false
	}
	client := s.NewClient()
	var r resolve.Resolver
	switch sys {
	case resolve.NPM:
		r = npmresolve.NewResolver(client)
	case resolve.Maven:
		r = mavenresolve.NewResolver(client)
	default:
		r = pypiresolve.NewResolver(client)
	}
	ok := false
	n := 0
	for _, p := range s.Packages {
		for _, v := range p.Versions {
			if n++; n > 4 {
				return ok
			}
			g, err := r.Resolve(callCtx, v.VersionKey)
			if err == nil && g != nil {
				ok = true
				_ = g.String()
				g.Canon()
			}
		}
	}
	return ok
}

func init() {
	register("resolvers",
		target{"npm.Resolve", func(x in) bool { return resolveAll(resolve.NPM, x.A) }},
		target{"maven.Resolve", func(x in) bool { return resolveAll(resolve.Maven, x.A) }},
		target{"pypi.Resolve", func(x in) bool { return resolveAll(resolve.PyPI, x.A) }},
		target{"pypi.Resolve(marker)", func(x in) bool { return resolveAll(resolve.PyPI, x.A) }},
	)
}

// hostileUniverse writes a small universe whose requirement strings, version
// strings and dependency-type values (Environment markers, exclusions, aliases)
// are arbitrary.
func hostileUniverse(sysName string) *rapid.Generator[string] {
	return rapid.Custom(func(t *rapid.T) string {
		var sv semver.System
		switch sysName {
		case "npm":
			sv = semver.NPM
		case "maven":
			sv = semver.Maven
		default:
			sv = semver.PyPI
		}
		names := []string{"a", "b", "c", "d"}
		if sysName == "maven" {
			names = []string{"g:a", "g:b", "h:c", "h:d"}
		}
		clean := func(s string) string {
			// keep the schema's own line structure intact: the hostile part is the value
			s = strings.NewReplacer("\n", " ", "\t", " ", "#", "", "|", "").Replace(s)
			if len(s) > 200 {
				s = s[:200]
			}
			return s
		}
		reqOf := func() string {
			r, _ := drawInput(t, gen.Constraint(sv), "req")
			r = clean(r)
			return strings.ReplaceAll(r, "@", "")
		}
		verOf := func() string {
			if rapid.IntRange(0, 5).Draw(t, "badver") == 0 {
				v, _ := drawInput(t, gen.Version(sv), "ver")
				v = strings.TrimSpace(clean(v))
				if v != "" && !strings.ContainsAny(v, " @") {
					return v
				}
			}
			return rapid.SampledFrom([]string{"1.0.0", "1.1.0", "2.0.0", "1.0.0-alpha", "0.9"}).Draw(t, "okver")
		}
		var sb strings.Builder
		for i, n := 0, rapid.IntRange(1, 4).Draw(t, "npk"); i < n; i++ {
			sb.WriteString(names[i] + "\n")
			for j, m := 0, rapid.IntRange(1, 3).Draw(t, "nv"); j < m; j++ {
				sb.WriteString("\t" + verOf() + "\n")
				if sysName == "npm" && rapid.IntRange(0, 4).Draw(t, "tag") == 0 {
					sb.WriteString("\t\tATTR: Tags " + rapid.SampledFrom([]string{"latest", "next,latest", ",", "a,,b"}).Draw(t, "tags") + "\n")
				}
				for k, l := 0, rapid.IntRange(0, 3).Draw(t, "ni"); k < l; k++ {
					dt := ""
					fwd := ""
					switch sysName {
					case "pypi":
						if rapid.IntRange(0, 1).Draw(t, "hasenv") == 0 {
							mk, _ := drawInput(t, gen.Marker(gen.MarkerOpts{Extras: []string{"x"}}), "marker")
							dt = "Environment " + fmt.Sprintf("%q", clean(mk))
							if rapid.IntRange(0, 3).Draw(t, "hasextras") == 0 {
								dt += " EnabledDependencies " + rapid.SampledFrom([]string{"x", "x,y", ",", "X", "\"\""}).Draw(t, "ed")
							}
							dt += "|"
						}
					case "maven":
						switch rapid.IntRange(0, 5).Draw(t, "mdt") {
						case 0:
							ex, _ := drawInput(t, rapid.SampledFrom([]string{"g:b", "*:*", "g:*,h:c", "g:b|h:c"}), "excl")
							dt = "MavenExclusions " + fmt.Sprintf("%q", clean(ex)) + "|"
						case 1:
							dt = "Scope " + rapid.SampledFrom([]string{"test", "provided", "import", "system", "x"}).Draw(t, "scope") + "|"
						case 2:
							dt = "MavenDependencyOrigin " + rapid.SampledFrom([]string{"management", "import", "parent", "x"}).Draw(t, "origin") + "|"
						case 3:
							dt = "Opt MavenArtifactType " + rapid.SampledFrom([]string{"war", "pom", "x"}).Draw(t, "type") + " MavenClassifier c|"
						}
					case "npm":
						switch rapid.IntRange(0, 5).Draw(t, "ndt") {
						case 0:
							// see known finding npm-alias-cycle-nontermination: aliased
							// requirements are generated acyclic (forward only)
							if i < n-1 {
								dt = "KnownAs " + rapid.SampledFrom([]string{"yy", "zz"}).Draw(t, "alias") + "|"
								fwd = names[rapid.IntRange(i+1, n-1).Draw(t, "aliastarget")]
							}
						case 1:
							dt = "Scope " + rapid.SampledFrom([]string{"peer", "bundle", "x"}).Draw(t, "scope") + "|"
						case 2:
							dt = rapid.SampledFrom([]string{"Dev|", "Opt|", "Opt Dev|"}).Draw(t, "flags")
						}
					}
					target := rapid.SampledFrom(append(names, "missing")).Draw(t, "in")
					if fwd != "" {
						target = fwd
					}
					sb.WriteString("\t\t" + dt + target + "@" + reqOf() + "\n")
				}
			}
		}
		return sb.String()
	})
}

func resolversProp(t *rapid.T) {
	for _, tg := range targets["resolvers"] {
		if tg.name == "pypi.Resolve(marker)" {
			continue
		}
		sysName := strings.SplitN(tg.name, ".", 2)[0]
		x := in{A: hostileUniverse(sysName).Draw(t, "universe")}
		evalTarget(t, "resolvers", tg, x, true)
	}
}

// markerUniverse is the smallest universe that makes the PyPI resolver parse
// and evaluate one environment marker: every operator against every kind of
// operand (version, wildcard, non-version, variable, literal on either side).
func markerUniverse() *rapid.Generator[string] {
	return rapid.Custom(func(t *rapid.T) string {
		mk, _ := drawInput(t, gen.Marker(gen.MarkerOpts{Extras: []string{"x"}, MaxDepth: 2}), "marker")
		mk = strings.NewReplacer("\n", " ", "\t", " ", "#", "", "|", "").Replace(mk)
		ed := ""
		if rapid.IntRange(0, 3).Draw(t, "hasextras") == 0 {
			ed = " EnabledDependencies x"
		}
		return "a\n\t1.0.0\n\t\tEnvironment " + fmt.Sprintf("%q", mk) + ed + "|b@\nb\n\t1.0.0\n"
	})
}

func markerProp(t *rapid.T) {
	for _, tg := range targets["resolvers"] {
		if tg.name == "pypi.Resolve(marker)" {
			evalTarget(t, "resolvers", tg, in{A: markerUniverse().Draw(t, "universe")}, true)
		}
	}
}

func TestResolvers(t *testing.T) { rec.Check(t, "resolvers", ev.N(2000, 300000), resolversProp) }
func TestMarkers(t *testing.T) { rec.Check(t, "resolvers-markers", ev.N(20000, 1500000), markerProp) }

// ---- group: API-backed client over a fake Insights service ----------------------

// fakeInsights serves Maven requirements decoded from a JSON description, so
// that the input is a plain string (replayable) and can describe cyclic
// parents, missing sub-messages and self-importing BOMs.
type fakeInsights struct {
	pb.InsightsClient
	reqs map[string]*pb.Requirements_Maven
}

type fDep struct {
	Name, Version, Type, Scope, Optional, Classifier string
	Exclusions                                       []string
}

type fProfile struct {
	ID           string
	NoActivation bool
	Default      string
	JDK          string
	OSName       string
	PropName     string
	NilProp      bool
	Deps         []fDep
}

type fProject struct {
	Key      string // "g:a@v"
	Parent   string // "g:a@v" or ""
	Deps     []fDep
	Mgmt     []fDep
	Props    [][2]string
	Profiles []fProfile
}

func toPBDeps(ds []fDep) []*pb.Requirements_Maven_Dependency {
	var out []*pb.Requirements_Maven_Dependency
	for _, d := range ds {
		out = append(out, &pb.Requirements_Maven_Dependency{Name: d.Name, Version: d.Version, Type: d.Type, Scope: d.Scope, Optional: d.Optional, Classifier: d.Classifier, Exclusions: d.Exclusions})
	}
	return out
}

func buildFake(projects []fProject) *fakeInsights {
	f := &fakeInsights{reqs: map[string]*pb.Requirements_Maven{}}
	for _, p := range projects {
		m := &pb.Requirements_Maven{Dependencies: toPBDeps(p.Deps), DependencyManagement: toPBDeps(p.Mgmt)}
		if p.Parent != "" {
			n, v, _ := strings.Cut(p.Parent, "@")
			m.Parent = &pb.VersionKey{System: pb.System_MAVEN, Name: n, Version: v}
		}
		for _, kv := range p.Props {
			m.Properties = append(m.Properties, &pb.Requirements_Maven_Property{Name: kv[0], Value: kv[1]})
		}
		for _, pr := range p.Profiles {
			pp := &pb.Requirements_Maven_Profile{Id: pr.ID, Dependencies: toPBDeps(pr.Deps)}
			if !pr.NoActivation {
				pp.Activation = &pb.Requirements_Maven_Profile_Activation{ActiveByDefault: pr.Default}
				if pr.JDK != "" {
					pp.Activation.Jdk = &pb.Requirements_Maven_Profile_Activation_JDK{Jdk: pr.JDK}
				}
				if pr.OSName != "" {
					pp.Activation.Os = &pb.Requirements_Maven_Profile_Activation_OS{Name: pr.OSName}
				}
				if pr.PropName != "" || pr.NilProp {
					pp.Activation.Property = &pb.Requirements_Maven_Profile_Activation_Property{}
					if !pr.NilProp {
						pp.Activation.Property.Property = &pb.Requirements_Maven_Property{Name: pr.PropName}
					}
				}
			}
			m.Profiles = append(m.Profiles, pp)
		}
		f.reqs[p.Key] = m
	}
	return f
}

func (f *fakeInsights) GetRequirements(ctx context.Context, r *pb.GetRequirementsRequest, _ ...grpc.CallOption) (*pb.Requirements, error) {
	k := r.VersionKey.Name + "@" + r.VersionKey.Version
	m, ok := f.reqs[k]
	if !ok {
		return nil, status.Error(codes.NotFound, "not found")
	}
	return &pb.Requirements{Maven: m}, nil
}

func (f *fakeInsights) GetPackage(ctx context.Context, r *pb.GetPackageRequest, _ ...grpc.CallOption) (*pb.Package, error) {
	p := &pb.Package{PackageKey: r.PackageKey}
	for k := range f.reqs {
		n, v, _ := strings.Cut(k, "@")
		if n == r.PackageKey.Name {
			p.Versions = append(p.Versions, &pb.Package_Version{VersionKey: &pb.VersionKey{System: r.PackageKey.System, Name: n, Version: v}})
		}
	}
	if len(p.Versions) == 0 {
		return nil, status.Error(codes.NotFound, "not found")
	}
	return p, nil
}

func (f *fakeInsights) GetVersion(ctx context.Context, r *pb.GetVersionRequest, _ ...grpc.CallOption) (*pb.Version, error) {
	if _, ok := f.reqs[r.VersionKey.Name+"@"+r.VersionKey.Version]; !ok {
		return nil, status.Error(codes.NotFound, "not found")
	}
	return &pb.Version{VersionKey: r.VersionKey}, nil
}

func init() {
	register("apiclient",
		target{"APIClient.Requirements(maven)+Resolve", func(x in) bool {
			var projects []fProject
			if err := json.Unmarshal([]byte(x.A), &projects); err != nil || len(projects) == 0 {
				return false
			}
			f := buildFake(projects)
			c := resolve.NewAPIClient(f)
			ok := false
			for i, p := range projects {
				if i > 2 {
					break
				}
				n, v, _ := strings.Cut(p.Key, "@")
				vk := resolve.VersionKey{PackageKey: resolve.PackageKey{System: resolve.Maven, Name: n}, VersionType: resolve.Concrete, Version: v}
				if _, err := c.Requirements(context.Background(), vk); err == nil {
					ok = true
				}
				c.Version(context.Background(), vk)
				c.Versions(context.Background(), vk.PackageKey)
				if i == 0 {
					mavenresolve.NewResolver(c).Resolve(context.Background(), vk)
				}
			}
			return ok
		}},
	)
}

func fakeProjects() *rapid.Generator[string] {
	return rapid.Custom(func(t *rapid.T) string {
		keys := []string{"g:a@1", "g:b@1", "g:c@1", "g:d@2"}
		vals := []string{"1", "${v}", "${a}", "${project.version}", "[1,2)", "", "${", "1.0"}
		dep := func() fDep {
			d := fDep{Name: rapid.SampledFrom([]string{"g:a", "g:b", "g:c", "g:d", "g", "", ":", "g:${a}"}).Draw(t, "dn"), Version: rapid.SampledFrom(vals).Draw(t, "dv")}
			switch rapid.IntRange(0, 5).Draw(t, "dk") {
			case 0:
				d.Type, d.Scope = "pom", "import"
			case 1:
				d.Scope = rapid.SampledFrom([]string{"test", "provided", "${s}"}).Draw(t, "scope")
			case 2:
				d.Optional = rapid.SampledFrom([]string{"true", "false", "${o}", "yes"}).Draw(t, "opt")
			case 3:
				d.Exclusions = []string{rapid.SampledFrom([]string{"g:a", "*:*", "g", "", "a:b:c"}).Draw(t, "ex")}
			}
			return d
		}
		var ps []fProject
		n := rapid.IntRange(1, 4).Draw(t, "nproj")
		for i := 0; i < n; i++ {
			p := fProject{Key: keys[i]}
			if rapid.IntRange(0, 2).Draw(t, "hasparent") > 0 {
				p.Parent = rapid.SampledFrom(append(keys[:n:n], "g:zz@9", "bad", "@")).Draw(t, "parent")
			}
			for j, m := 0, rapid.IntRange(0, 3).Draw(t, "nd"); j < m; j++ {
				p.Deps = append(p.Deps, dep())
			}
			for j, m := 0, rapid.IntRange(0, 3).Draw(t, "nm"); j < m; j++ {
				p.Mgmt = append(p.Mgmt, dep())
			}
			for j, m := 0, rapid.IntRange(0, 3).Draw(t, "np"); j < m; j++ {
				p.Props = append(p.Props, [2]string{rapid.SampledFrom([]string{"a", "v", "s", "o", "version"}).Draw(t, "pk"), rapid.SampledFrom([]string{"1", "${a}", "${v}", "${v}${a}", "true"}).Draw(t, "pv")})
			}
			if rapid.IntRange(0, 2).Draw(t, "hasprof") == 0 {
				pr := fProfile{ID: "p", Deps: []fDep{dep()}}
				switch rapid.IntRange(0, 5).Draw(t, "prk") {
				case 0:
					pr.NoActivation = true
				case 1:
					pr.Default = rapid.SampledFrom([]string{"true", "false", "x"}).Draw(t, "def")
				case 2:
					pr.JDK = rapid.SampledFrom([]string{"11", "[1.8,)", "(", "!11"}).Draw(t, "jdk")
				case 3:
					pr.OSName = "linux"
				case 4:
					pr.PropName = "!x"
				case 5:
					pr.NilProp = true
				}
				p.Profiles = append(p.Profiles, pr)
			}
			ps = append(ps, p)
		}
		b, _ := json.Marshal(ps)
		return string(b)
	})
}

func apiClientProp(t *rapid.T) {
	for _, tg := range targets["apiclient"] {
		x := in{A: fakeProjects().Draw(t, "projects")}
		evalTarget(t, "apiclient", tg, x, true)
	}
}

func TestAPIClient(t *testing.T) { rec.Check(t, "apiclient", ev.N(3000, 300000), apiClientProp) }
