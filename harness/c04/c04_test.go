// C04 — parsing and matching entry points are total: errors, never panics or hangs.
package c04

import (
	"bytes"
	"context"
	"encoding/binary"
	"encoding/json"
	"encoding/xml"
	"fmt"
	"os"
	"runtime/debug"
	"sort"
	"strings"
	"sync"
	"testing"
	"time"

	"deps.dev/util/maven"
	"deps.dev/util/pypi"
	"deps.dev/util/resolve"
	"deps.dev/util/resolve/dep"
	"deps.dev/util/resolve/schema"
	"deps.dev/util/resolve/verifh/internal/ev"
	"deps.dev/util/resolve/verifh/internal/gen"
	"deps.dev/util/resolve/verifh/internal/known"
	"deps.dev/util/semver"
	"pgregory.net/rapid"
)

var rec = ev.New("C04")
var kf *known.File
var journal *os.File

func TestMain(m *testing.M) {
	kf, _ = known.Load(ev.KnownFile())
	debug.SetMaxStack(256 << 20)
	if out := os.Getenv("VERIF_EV_OUT"); out != "" {
		journal, _ = os.Create(out + ".journal")
	}
	rec.Rule("for every target (the enumerated list is in coverage.targets) inputs are drawn from three mixes: raw bytes (incl. invalid UTF-8, NULs, long tokens), grammar-derived valid strings, and 1-3 byte/token mutations of valid strings (delete, duplicate, splice, hostile constants); graph texts vary their first row and include wide well-formed graphs of 12-20 nodes with copies of the root; a dedicated target evaluates one environment marker per universe; oracle = the call returns (a value or an error): panics are recovered and reported, a call exceeding 10 s is re-run with a 100 s budget before being reported as a hang, a fatal exit is attributed through a last-input journal. One evaluation = one target call. Non-trivial: the call got past validation (returned a non-error value) or the input is a mutation of a valid input. Distinct = distinct (target, input).")
	rec.Extra("targets", targetNames())
	code := m.Run()
	rec.Flush()
	os.Exit(code)
}

// ---- guarded calls -------------------------------------------------------------

type in struct {
	A string `json:"a"`
	B string `json:"b,omitempty"`
	C string `json:"c,omitempty"`
}

type target struct {
	name string
	fn   func(x in) (accepted bool)
}

var targets = map[string][]target{}

func targetNames() []string {
	var out []string
	for g, ts := range targets {
		for _, t := range ts {
			out = append(out, g+"/"+t.name)
		}
	}
	sort.Strings(out)
	return out
}

func register(group string, ts ...target) { targets[group] = append(targets[group], ts...) }

var jmu sync.Mutex

func writeJournal(name string, x in) {
	if journal == nil {
		return
	}
	b, _ := json.Marshal(map[string]any{"target": name, "input": x})
	var hdr [4]byte
	binary.LittleEndian.PutUint32(hdr[:], uint32(len(b)))
	jmu.Lock()
	journal.WriteAt(append(hdr[:], b...), 0)
	jmu.Unlock()
}

type outcome struct {
	accepted bool
	panicked any
	stack    string
	hung     bool
}

// callCtx is the context handed to targets that take one; it is cancelled when
// the guarded call gives up, so that a resolver stuck in a loop that polls its
// context stops instead of running on in the background.
var callCtx = context.Background()

func guarded(name string, fn func(in) bool, x in, budget time.Duration) outcome {
	writeJournal(name, x)
	ctx, cancel := context.WithCancel(context.Background())
	callCtx = ctx
	defer cancel()
	done := make(chan outcome, 1)
	go func() {
		var o outcome
		defer func() {
			if r := recover(); r != nil {
				o.panicked = r
				o.stack = string(debug.Stack())
			}
			done <- o
		}()
		o.accepted = fn(x)
	}()
	tm := time.NewTimer(budget)
	defer tm.Stop()
	select {
	case o := <-done:
		return o
	case <-tm.C:
		return outcome{hung: true}
	}
}

type callCase struct {
	Target string `json:"target"`
	Input  in     `json:"input"`
}

// runTarget executes one target and reports a violation description or "".
func runTarget(group string, tg target, x in) (string, bool) {
	full := group + "/" + tg.name
	o := guarded(full, tg.fn, x, 10*time.Second)
	if o.hung {
		o = guarded(full, tg.fn, x, 100*time.Second)
		if o.hung {
			return "call did not return within 100 s (hang)", false
		}
	}
	if o.panicked != nil {
		st := o.stack
		if i := strings.Index(st, "panic("); i >= 0 {
			st = st[i:]
		}
		lines := strings.Split(st, "\n")
		if len(lines) > 14 {
			lines = lines[:14]
		}
		return fmt.Sprintf("panic: %v | %s", o.panicked, strings.Join(lines, " ; ")), false
	}
	return "", o.accepted
}

// ---- inputs ---------------------------------------------------------------------

var hostile = []string{"∞", "*", "9223372036854775807", "9223372036854775808", "18446744073709551616", "${a}", "${", "}", ">", "((((", "))))", "||", "\x00", "\xff\xfe", "-", "--", ".", "..", "v", "[", "(,", ",)", "!=", "===", "~=", " ", "\t", "\n", "+", "!", "@", "|", "#", ":", "$", "'", "\"", "\\", "0000000000000000000000", "x", "X", "∞.∞.∞", "{", "{}", "{,}", "<empty>", ";", "=", "&#0;", "<", "</a>", "<!--", "]]>"}

func rawString() *rapid.Generator[string] {
	return rapid.Custom(func(t *rapid.T) string {
		switch rapid.IntRange(0, 9).Draw(t, "rawkind") {
		case 0:
			return string(rapid.SliceOfN(rapid.Byte(), 0, 40).Draw(t, "bytes"))
		case 1: // long token
			tok := rapid.SampledFrom(hostile).Draw(t, "tok")
			// Maven's trimming loop is quadratic ("-" x 65536 takes 12 s to parse):
			// slow, not a hang; the longest tokens are kept for the thorough tier.
			sizes := []int{64, 1000, 4096, 8192}
			if ev.Thorough() {
				sizes = []int{64, 1000, 4096, 65536}
			}
			n := rapid.SampledFrom(sizes).Draw(t, "rep")
			return strings.Repeat(tok, n/len(tok)+1)
		case 2:
			return rapid.String().Draw(t, "unicode")
		default:
			n := rapid.IntRange(0, 6).Draw(t, "ntok")
			var sb strings.Builder
			for i := 0; i < n; i++ {
				if rapid.Bool().Draw(t, "h") {
					sb.WriteString(rapid.SampledFrom(hostile).Draw(t, "tok"))
				} else {
					sb.WriteString(rapid.StringMatching(`[0-9a-zA-Z.*^~<>=, |-]{0,6}`).Draw(t, "frag"))
				}
			}
			return sb.String()
		}
	})
}

func mutate(t *rapid.T, s string, other string) string {
	n := rapid.IntRange(1, 3).Draw(t, "nmut")
	for i := 0; i < n; i++ {
		pos := 0
		if len(s) > 0 {
			pos = rapid.IntRange(0, len(s)).Draw(t, "pos")
		}
		switch rapid.IntRange(0, 4).Draw(t, "mutkind") {
		case 0: // delete a byte or a short run
			if len(s) > 0 && pos < len(s) {
				end := pos + rapid.IntRange(1, 3).Draw(t, "dl")
				if end > len(s) {
					end = len(s)
				}
				s = s[:pos] + s[end:]
			}
		case 1: // duplicate a run
			if pos < len(s) {
				end := pos + rapid.IntRange(1, 8).Draw(t, "dup")
				if end > len(s) {
					end = len(s)
				}
				s = s[:end] + s[pos:end] + s[end:]
			}
		case 2: // splice with another valid input
			cut := 0
			if len(other) > 0 {
				cut = rapid.IntRange(0, len(other)).Draw(t, "cut")
			}
			s = s[:pos] + other[cut:]
		case 3: // insert a hostile constant
			s = s[:pos] + rapid.SampledFrom(hostile).Draw(t, "host") + s[pos:]
		case 4: // replace a byte
			if pos < len(s) {
				s = s[:pos] + string([]byte{rapid.Byte().Draw(t, "byte")}) + s[pos+1:]
			}
		}
	}
	return s
}

// drawInput mixes raw, valid and mutated inputs. mutated reports the third mix.
func drawInput(t *rapid.T, valid *rapid.Generator[string], label string) (s string, mutated bool) {
	switch k := rapid.IntRange(0, 9).Draw(t, label+"mix"); {
	case k < 2:
		return rawString().Draw(t, label+"raw"), false
	case k < 5:
		return valid.Draw(t, label+"valid"), false
	default:
		return mutate(t, valid.Draw(t, label+"base"), valid.Draw(t, label+"other")), true
	}
}

// ---- group: semver ---------------------------------------------------------------

func semverTargets(sys semver.System) []target {
	return []target{
		{"Parse", func(x in) bool {
			v, err := sys.Parse(x.A)
			if err != nil {
				return false
			}
			_ = v.Canon(true)
			_ = v.Canon(false)
			_ = v.String()
			v.IsWildcard()
			v.IsPrerelease()
			v.IsBuild()
			_ = v.Prerelease()
			v.Epoch()
			v.Major()
			if w, err := sys.Parse(x.B); err == nil {
				v.Compare(w)
				v.Difference(w)
				sys.MinVersion(w)
			}
			return true
		}},
		{"Compare+Difference", func(x in) bool {
			sys.Compare(x.A, x.B)
			_, _, err := sys.Difference(x.A, x.B)
			return err == nil
		}},
		{"ParseConstraint", func(x in) bool {
			c, err := sys.ParseConstraint(x.A)
			if err != nil {
				return false
			}
			exerciseConstraint(sys, c, x)
			return true
		}},
		{"ParseSetConstraint", func(x in) bool {
			c, err := sys.ParseSetConstraint(x.A)
			if err != nil {
				return false
			}
			exerciseConstraint(sys, c, x)
			return true
		}},
	}
}

func exerciseConstraint(sys semver.System, c *semver.Constraint, x in) {
	_ = c.String()
	c.IsSimple()
	c.HasPrerelease()
	s := c.Set()
	_ = s.String()
	s.Empty()
	c.Match(x.B)
	s.Match(x.B)
	if v, err := sys.Parse(x.B); err == nil {
		c.MatchVersion(v)
		c.MatchVersionPrerelease(v)
		s.MatchVersion(v)
	}
	for _, parse := range []func(string) (*semver.Constraint, error){sys.ParseConstraint, sys.ParseSetConstraint} {
		if d, err := parse(x.C); err == nil {
			a, b := c.Set(), d.Set()
			if err := a.Union(b); err == nil {
				_ = a.String()
				a.Match(x.B)
			}
			a2, b2 := c.Set(), d.Set()
			if err := a2.Intersect(b2); err == nil {
				_ = a2.String()
				a2.Match(x.B)
				a2.Empty()
			}
		}
	}
}

func setText(sys semver.System) *rapid.Generator[string] {
	return rapid.Custom(func(t *rapid.T) string {
		cs := gen.Constraint(sys).Draw(t, "c")
		if c, err := sys.ParseConstraint(cs); err == nil {
			return c.Set().String()
		}
		return "{[1.0.0:2.∞.∞]}"
	})
}

func semverGroupProp(sys semver.System) func(*rapid.T) {
	group := "semver." + sys.String()
	ts := targets[group]
	vg, cg, sg := gen.Version(sys), gen.Constraint(sys), setText(sys)
	return func(t *rapid.T) {
		for _, tg := range ts {
			var x in
			var mut bool
			switch tg.name {
			case "Parse", "Compare+Difference":
				x.A, mut = drawInput(t, vg, "a")
				x.B, _ = drawInput(t, vg, "b")
			case "ParseConstraint":
				x.A, mut = drawInput(t, cg, "a")
				x.B, _ = drawInput(t, vg, "b")
				x.C, _ = drawInput(t, cg, "c")
			case "ParseSetConstraint":
				x.A, mut = drawInput(t, sg, "a")
				x.B, _ = drawInput(t, vg, "b")
				x.C, _ = drawInput(t, sg, "c")
			}
			evalTarget(t, group, tg, x, mut)
		}
	}
}

func evalTarget(t *rapid.T, group string, tg target, x in, mutated bool) {
	c := callCase{group + "/" + tg.name, x}
	rec.SetCase(c)
	rec.Eval(1)
	obs, accepted := runTarget(group, tg, x)
	if accepted {
		rec.Class("accepted")
	}
	if accepted || mutated {
		rec.NonTrivial(c.Target + "|" + x.A + "|" + x.B + "|" + x.C)
		if accepted && len(x.A) < 80 && rec.WantSample() {
			rec.Sample(c)
		}
	}
	if obs != "" {
		if cl := knownClass(c, obs); cl != "" {
			rec.ExcludedKnown(cl)
			return
		}
		rec.Fail(t, c, obs, "returns a value or an error")
	}
}

func knownClass(c callCase, obs string) string { return "" }

// ---- group: pypi -------------------------------------------------------------------

func metadataDoc() *rapid.Generator[string] {
	return rapid.Custom(func(t *rapid.T) string {
		var sb strings.Builder
		sb.WriteString("Metadata-Version: 2.1\nName: " + rapid.SampledFrom([]string{"foo", "Foo_Bar", "x.y"}).Draw(t, "name") + "\n")
		sb.WriteString("Version: " + gen.PEP440(false).Draw(t, "ver") + "\n")
		n := rapid.IntRange(0, 4).Draw(t, "nreq")
		for i := 0; i < n; i++ {
			sb.WriteString("Requires-Dist: " + gen.PEP508Requirement().Draw(t, "req") + "\n")
		}
		if rapid.Bool().Draw(t, "extra") {
			sb.WriteString("Provides-Extra: test\nClassifier: A :: B\nProject-URL: Home, https://x\nHome-Page: UNKNOWN\n")
		}
		if rapid.Bool().Draw(t, "body") {
			sb.WriteString("\nLong description\nwith lines\n")
		}
		return sb.String()
	})
}

func wheelName() *rapid.Generator[string] {
	return rapid.Custom(func(t *rapid.T) string {
		s := rapid.SampledFrom([]string{"foo", "Foo_Bar", "x.y"}).Draw(t, "name") + "-" + gen.PEP440(true).Draw(t, "ver")
		if rapid.IntRange(0, 3).Draw(t, "build") == 0 {
			s += "-" + rapid.SampledFrom([]string{"1", "2b", "007x", "99999999999999999999"}).Draw(t, "b")
		}
		s += "-" + rapid.SampledFrom([]string{"py3", "py2.py3", "cp39", "cp39.cp310"}).Draw(t, "py")
		s += "-" + rapid.SampledFrom([]string{"none", "abi3", "cp39"}).Draw(t, "abi")
		s += "-" + rapid.SampledFrom([]string{"any", "manylinux1_x86_64", "win32.win_amd64", "macosx_10_9_x86_64"}).Draw(t, "plat")
		return s + ".whl"
	})
}

func sdistName() *rapid.Generator[string] {
	return rapid.Custom(func(t *rapid.T) string {
		return rapid.SampledFrom([]string{"foo", "Foo_Bar", "x.y", "a-b-c"}).Draw(t, "name") + "-" + gen.PEP440(false).Draw(t, "ver") + rapid.SampledFrom([]string{".tar.gz", ".zip", ".tgz", ".tar.bz2", ""}).Draw(t, "ext")
	})
}

func init() {
	ctx := context.Background()
	register("pypi",
		target{"ParseDependency", func(x in) bool { _, err := pypi.ParseDependency(x.A); return err == nil }},
		target{"ParseMetadata", func(x in) bool { _, err := pypi.ParseMetadata(ctx, x.A); return err == nil }},
		target{"ParseWheelName", func(x in) bool { _, err := pypi.ParseWheelName(x.A); return err == nil }},
		target{"SdistVersion", func(x in) bool {
			_, _, err := pypi.SdistVersion(pypi.CanonPackageName(x.B), x.A)
			_, _, err2 := pypi.SdistVersion(x.B, x.A)
			return err == nil || err2 == nil
		}},
		target{"CanonVersion+CanonPackageName", func(x in) bool {
			pypi.CanonVersion(x.A)
			pypi.CanonPackageName(x.A)
			return true
		}},
		target{"WheelMetadata", func(x in) bool {
			_, err := pypi.WheelMetadata(ctx, bytes.NewReader([]byte(x.A)), int64(len(x.A)))
			return err == nil
		}},
		target{"SdistMetadata", func(x in) bool {
			ok := false
			for _, name := range []string{"p-1.0.tar.gz", "p-1.0.zip", "p-1.0.tgz", x.B} {
				if _, err := pypi.SdistMetadata(ctx, name, strings.NewReader(x.A)); err == nil {
					ok = true
				}
			}
			return ok
		}},
	)
	for _, sys := range gen.Systems {
		register("semver."+sys.String(), semverTargets(sys)...)
	}
}

func pypiProp(t *rapid.T) {
	for _, tg := range targets["pypi"] {
		var x in
		var mut bool
		switch tg.name {
		case "ParseDependency":
			x.A, mut = drawInput(t, gen.PEP508Requirement(), "a")
		case "ParseMetadata":
			x.A, mut = drawInput(t, metadataDoc(), "a")
		case "ParseWheelName":
			x.A, mut = drawInput(t, wheelName(), "a")
		case "SdistVersion":
			x.A, mut = drawInput(t, sdistName(), "a")
			x.B = rapid.SampledFrom([]string{"foo", "foo-bar", "Foo_Bar", "x-y", "a-b-c", "a", ""}).Draw(t, "b")
		case "CanonVersion+CanonPackageName":
			x.A, mut = drawInput(t, gen.PEP440(false), "a")
		case "WheelMetadata", "SdistMetadata":
			x.A, mut = drawInput(t, archiveBytes(), "a")
			x.B = rapid.SampledFrom([]string{"", "x.zip", "x.tar.gz", "x.tar.bz2", "x"}).Draw(t, "b")
		}
		evalTarget(t, "pypi", tg, x, mut)
	}
}

// ---- group: maven -------------------------------------------------------------------

func init() {
	register("maven",
		target{"xml.Unmarshal(Project)+pipeline", func(x in) bool {
			var p maven.Project
			if err := xml.Unmarshal([]byte(x.A), &p); err != nil {
				return false
			}
			var parent maven.Project
			hasParent := xml.Unmarshal([]byte(x.B), &parent) == nil
			p.MergeProfiles(maven.JDKProfileActivation, maven.OSProfileActivation)
			if hasParent {
				parent.MergeProfiles("", maven.ActivationOS{})
				p.MergeParent(parent)
			}
			p.Interpolate()
			calls := 0
			p.ProcessDependencies(func(g, a, v maven.String) (maven.DependencyManagement, error) {
				calls++
				if calls > 1000 {
					panic("ProcessDependencies called the import callback more than 1000 times")
				}
				// a BOM that imports itself and the parent
				var bom maven.Project
				if err := xml.Unmarshal([]byte(x.B), &bom); err != nil {
					return maven.DependencyManagement{}, err
				}
				bom.Interpolate()
				bom.DependencyManagement.Dependencies = append(bom.DependencyManagement.Dependencies, maven.Dependency{GroupID: g, ArtifactID: a, Version: v, Type: "pom", Scope: "import"})
				return bom.DependencyManagement, nil
			})
			for _, d := range p.Dependencies {
				d.Name()
				d.ExclusionsString()
				d.Key()
				dt := resolve.MavenDepType(d, "management")
				resolve.MavenDepTypeToDependency(dt)
			}
			p.ProjectKey.Name()
			return true
		}},
		target{"xml.Unmarshal(Metadata)", func(x in) bool {
			var m maven.Metadata
			return xml.Unmarshal([]byte(x.A), &m) == nil
		}},
		target{"MakeProjectKey", func(x in) bool { _, err := maven.MakeProjectKey(x.A, x.B); return err == nil }},
		target{"MavenDepTypeToDependency", func(x in) bool {
			var dt dep.Type
			dt.AddAttr(dep.MavenExclusions, x.A)
			dt.AddAttr(dep.Scope, x.B)
			if x.C != "" {
				dt.AddAttr(dep.Test, "")
				dt.AddAttr(dep.MavenClassifier, x.C)
			}
			_, _, err := resolve.MavenDepTypeToDependency(dt)
			return err == nil
		}},
	)
}

var pomValues = []string{"1.0", "${v}", "${project.version}", "${a}", "${b}", "${undefined}", "${", "[1.0,2.0)", "", "true", "false", "${project.parent.version}", "${pom.groupId}", "jar", "pom", "import", "test", "g", "a", "*"}

func pomDep(t *rapid.T) string {
	v := func(l string) string { return rapid.SampledFrom(pomValues).Draw(t, l) }
	s := "<dependency><groupId>" + rapid.SampledFrom([]string{"g", "h", "${project.groupId}", ""}).Draw(t, "g") + "</groupId><artifactId>" + rapid.SampledFrom([]string{"a", "b", "${a}", ""}).Draw(t, "a") + "</artifactId>"
	if rapid.Bool().Draw(t, "hv") {
		s += "<version>" + v("ver") + "</version>"
	}
	if rapid.IntRange(0, 2).Draw(t, "ht") == 0 {
		s += "<type>" + v("type") + "</type>"
	}
	if rapid.IntRange(0, 2).Draw(t, "hs") == 0 {
		s += "<scope>" + v("scope") + "</scope>"
	}
	if rapid.IntRange(0, 3).Draw(t, "ho") == 0 {
		s += "<optional>" + v("opt") + "</optional>"
	}
	if rapid.IntRange(0, 3).Draw(t, "he") == 0 {
		s += "<exclusions><exclusion><groupId>" + v("eg") + "</groupId><artifactId>" + v("ea") + "</artifactId></exclusion></exclusions>"
	}
	return s + "</dependency>"
}

func pomDoc() *rapid.Generator[string] {
	return rapid.Custom(func(t *rapid.T) string {
		var sb strings.Builder
		sb.WriteString("<project><groupId>g</groupId><artifactId>a</artifactId><version>" + rapid.SampledFrom(pomValues).Draw(t, "pv") + "</version>")
		if rapid.Bool().Draw(t, "hasparent") {
			sb.WriteString("<parent><groupId>pg</groupId><artifactId>pa</artifactId><version>2.0</version></parent>")
		}
		sb.WriteString("<packaging>" + rapid.SampledFrom([]string{"pom", "jar", "${p}"}).Draw(t, "pk") + "</packaging><properties>")
		np := rapid.IntRange(0, 5).Draw(t, "nprops")
		for i := 0; i < np; i++ {
			k := rapid.SampledFrom([]string{"a", "b", "v", "p", "version", "project.version", "c"}).Draw(t, "pk")
			sb.WriteString("<" + k + ">" + rapid.SampledFrom([]string{"1", "${a}", "${b}", "${v}${a}", "${c}-${c}", "${version}", "x${b}y", "${", "}"}).Draw(t, "pval") + "</" + k + ">")
		}
		sb.WriteString("</properties><dependencyManagement><dependencies>")
		for i, n := 0, rapid.IntRange(0, 3).Draw(t, "ndm"); i < n; i++ {
			sb.WriteString(pomDep(t))
		}
		sb.WriteString("</dependencies></dependencyManagement><dependencies>")
		for i, n := 0, rapid.IntRange(0, 3).Draw(t, "nd"); i < n; i++ {
			sb.WriteString(pomDep(t))
		}
		sb.WriteString("</dependencies>")
		if rapid.Bool().Draw(t, "hasprofile") {
			sb.WriteString("<profiles><profile><id>p</id><activation>")
			switch rapid.IntRange(0, 4).Draw(t, "act") {
			case 0:
				sb.WriteString("<activeByDefault>" + rapid.SampledFrom([]string{"true", "false", "${x}", "yes"}).Draw(t, "abd") + "</activeByDefault>")
			case 1:
				sb.WriteString("<jdk>" + rapid.SampledFrom([]string{"11", "[1.8,12)", "!1.8", "(,", "1.8", "[11,)", "${j}", "11.0.8", "[", "]"}).Draw(t, "jdk") + "</jdk>")
			case 2:
				sb.WriteString("<os><name>" + rapid.SampledFrom([]string{"linux", "!linux", "Linux", "", "!"}).Draw(t, "os") + "</name><family>unix</family></os>")
			case 3:
				sb.WriteString("<property><name>" + rapid.SampledFrom([]string{"!x", "x", ""}).Draw(t, "pn") + "</name><value>" + rapid.SampledFrom([]string{"", "!v", "v"}).Draw(t, "pvv") + "</value></property>")
			}
			sb.WriteString("</activation><dependencies>" + pomDep(t) + "</dependencies></profile></profiles>")
		}
		sb.WriteString("</project>")
		return sb.String()
	})
}

func mavenProp(t *rapid.T) {
	for _, tg := range targets["maven"] {
		var x in
		var mut bool
		switch tg.name {
		case "xml.Unmarshal(Project)+pipeline":
			x.A, mut = drawInput(t, pomDoc(), "a")
			x.B, _ = drawInput(t, pomDoc(), "b")
		case "xml.Unmarshal(Metadata)":
			x.A, mut = drawInput(t, rapid.Just("<metadata><groupId>g</groupId><artifactId>a</artifactId><versioning><latest>1</latest><release>1</release><versions><version>1</version><version>2</version></versions><lastUpdated>2020</lastUpdated></versioning></metadata>"), "a")
		case "MakeProjectKey":
			x.A, mut = drawInput(t, rapid.SampledFrom([]string{"g:a", "g", ":", "g:a:b", ""}), "a")
			x.B = "1.0"
		case "MavenDepTypeToDependency":
			x.A, mut = drawInput(t, rapid.SampledFrom([]string{"g:a", "g:a|h:*", "*:*", "g", "", "|", "g:a|", ":"}), "a")
			x.B = rapid.SampledFrom([]string{"", "provided", "test", "runtime"}).Draw(t, "b")
			x.C = rapid.SampledFrom([]string{"", "sources"}).Draw(t, "c")
		}
		evalTarget(t, "maven", tg, x, mut)
	}
}

// ---- group: schema -------------------------------------------------------------------

func init() {
	register("schema",
		target{"schema.New+NewClient+ValidateClient", func(x in) bool {
			ok := false
			for _, sys := range []resolve.System{resolve.NPM, resolve.Maven, resolve.PyPI} {
				s, err := schema.New(x.A, sys)
				if err != nil {
					continue
				}
				ok = true
				c := s.NewClient()
				s.ValidateClient(c)
				s.Package(x.B)
				for _, p := range s.Packages {
					p.Version(x.B, resolve.Concrete)
				}
			}
			return ok
		}},
		target{"schema.ParseResolve+Graph.String+Canon", func(x in) bool {
			g, err := schema.ParseResolve(x.A, resolve.NPM)
			if err != nil {
				return false
			}
			s := g.String()
			g.Canon()
			if g2, err := schema.ParseResolve(s, resolve.NPM); err == nil {
				_ = g2.String()
			}
			return true
		}},
	)
}

func universeText() *rapid.Generator[string] {
	return rapid.Custom(func(t *rapid.T) string {
		var sb strings.Builder
		names := []string{"a", "b", "@s/c", "g:a"}
		for i, n := 0, rapid.IntRange(1, 4).Draw(t, "npk"); i < n; i++ {
			sb.WriteString(rapid.SampledFrom(names).Draw(t, "pk") + "\n")
			for j, m := 0, rapid.IntRange(0, 3).Draw(t, "nv"); j < m; j++ {
				sb.WriteString("\t" + rapid.SampledFrom([]string{"", "Blocked|", "Deleted Error|", "Redirect x|", "Tags|"}).Draw(t, "va") + rapid.SampledFrom([]string{"1.0.0", "2.0.0", "1.0.0-alpha", "x"}).Draw(t, "v") + "\n")
				if rapid.IntRange(0, 3).Draw(t, "attr") == 0 {
					sb.WriteString("\t\tATTR: " + rapid.SampledFrom([]string{"Tags latest", "DerivedFrom \"a b\"", "Blocked", "Nope x", "Tags `x`", "Tags \"unterminated"}).Draw(t, "av") + "\n")
				}
				for k, l := 0, rapid.IntRange(0, 3).Draw(t, "ni"); k < l; k++ {
					sb.WriteString("\t\t" + rapid.SampledFrom([]string{"", "Dev|", "Opt Scope peer|", "KnownAs x|", "Environment \"a b\"|", "Scope|", "Bogus|"}).Draw(t, "dt") + rapid.SampledFrom(names).Draw(t, "in") + "@" + rapid.SampledFrom([]string{"^1.0.0", "*", "latest", "", "1.0.0"}).Draw(t, "req") + "\n")
				}
			}
		}
		return sb.String()
	})
}

func graphText() *rapid.Generator[string] {
	return rapid.Custom(func(t *rapid.T) string {
		var sb strings.Builder
		// The first row is usually the root; sometimes an error row, a label
		// reference or an indented row (rows that create no node).
		// a sixth of the texts: a wide, well-formed graph of 12-20 distinct nodes
		// with copies of the root and of other nodes among them (sorting behaves
		// differently beyond a dozen elements)
		if rapid.IntRange(0, 5).Draw(t, "wide") == 0 {
			sb.WriteString("root 1.0.0\n")
			for i, n := 0, rapid.IntRange(12, 20).Draw(t, "width"); i < n; i++ {
				d := 1
				if i > 0 && rapid.IntRange(0, 3).Draw(t, "deeper") == 0 {
					d = 2
				}
				switch rapid.IntRange(0, 7).Draw(t, "widekind") {
				case 0:
					sb.WriteString(strings.Repeat("\t", d) + "root@^1.0.0 1.0.0\n")
				case 1:
					sb.WriteString(strings.Repeat("\t", d) + "n0@* 1.0.0\n")
				default:
					sb.WriteString(fmt.Sprintf("%sn%d@^1.0.0 1.%d.0\n", strings.Repeat("\t", d), i, i))
				}
			}
			return sb.String()
		}
		pre := rapid.SampledFrom([]string{"", "", "1: ", "ERROR: boom\n"}).Draw(t, "pre")
		sb.WriteString(pre)
		defined := []int{}
		if pre == "1: " {
			defined = append(defined, 1)
		}
		sb.WriteString(rapid.SampledFrom([]string{"root 1.0.0\n", "root 1.0.0\n", "root 1.0.0\n", "a@1 ERROR: x\n", "$1@*\n", "\troot 1.0.0\n", "root@^1 1.0.0\n"}).Draw(t, "first"))
		depth := 0
		label := 1
		// up to 20 rows: Canon sorts with an unstable algorithm beyond 12 nodes
		maxLines := rapid.SampledFrom([]int{8, 8, 8, 20}).Draw(t, "maxlines")
		for i, n := 0, rapid.IntRange(0, maxLines).Draw(t, "nlines"); i < n; i++ {
			d := rapid.IntRange(1, depth+1).Draw(t, "depth")
			depth = d
			sb.WriteString(strings.Repeat("\t", d))
			kind := rapid.IntRange(0, 7).Draw(t, "kind")
			if kind == 0 && (len(defined) == 0 || rapid.IntRange(0, 9).Draw(t, "badref") == 0) {
				if len(defined) > 0 || rapid.IntRange(0, 4).Draw(t, "undefinedref") == 0 {
					sb.WriteString(fmt.Sprintf("$%d@*\n", label+5)) // an undefined label: rejected
					continue
				}
				kind = 4
			}
			switch kind {
			case 0:
				sb.WriteString(fmt.Sprintf("$%d@*\n", rapid.SampledFrom(defined).Draw(t, "ref")))
			case 1:
				sb.WriteString("x@^1 ERROR: not found\n")
			case 2:
				label++
				defined = append(defined, label)
				sb.WriteString(fmt.Sprintf("%d: Dev|%s@^1 %s\n", label, rapid.SampledFrom([]string{"a", "f", "g"}).Draw(t, "ln"), rapid.SampledFrom([]string{"1.0.0", "1.1.0", "3.0.0"}).Draw(t, "lv")))
			case 3:
				// a copy of the root, or of another node
				sb.WriteString(rapid.SampledFrom([]string{"root@* 1.0.0\n", "root@^1 1.0.0\n", "a@^1 1.0.0\n"}).Draw(t, "dup"))
			default:
				sb.WriteString(rapid.SampledFrom([]string{"", "Opt|", "Scope peer|", "KnownAs \"x y\"|"}).Draw(t, "dt") + rapid.SampledFrom([]string{"a", "b", "@s/c", "d", "e", "h", "i", "j", "k"}).Draw(t, "n") + "@" + rapid.SampledFrom([]string{"*", "^1", "1 - 2"}).Draw(t, "r") + " " + rapid.SampledFrom([]string{"1.0.0", "2.0.0", "1.5.0"}).Draw(t, "v") + "\n")
			}
		}
		return sb.String()
	})
}

func schemaProp(t *rapid.T) {
	for _, tg := range targets["schema"] {
		var x in
		var mut bool
		if strings.HasPrefix(tg.name, "schema.New") {
			x.A, mut = drawInput(t, universeText(), "a")
			x.B = rapid.SampledFrom([]string{"a", "Dev|b", "x|y|z", ""}).Draw(t, "b")
		} else {
			x.A, mut = drawInput(t, graphText(), "a")
		}
		evalTarget(t, "schema", tg, x, mut)
	}
}

// ---- tests ---------------------------------------------------------------------------

func TestCorpus(t *testing.T) {
	rec.SetCheck("corpus")
	for _, fd := range kf.For("C04") {
		var c callCase
		if err := json.Unmarshal(fd.Witness, &c); err != nil {
			t.Fatalf("bad witness %s: %v", fd.ID, err)
		}
		// Witnesses of non-termination are replayed with a short budget.
		if strings.HasSuffix(fd.Class, "NonTermination") {
			group, name, _ := strings.Cut(c.Target, "/")
			for _, tg := range targets[group] {
				if tg.name == name {
					if o := guarded(c.Target, tg.fn, c.Input, 3*time.Second); o.hung {
						rec.Known(fd.ID, fd.Text+" [no result within 3 s]")
					}
				}
			}
			continue
		}
		if obs := replayCase(c); obs != "" {
			rec.Known(fd.ID, fd.Text+" ["+firstLine(obs)+"]")
		}
	}
}

func firstLine(s string) string {
	if i := strings.Index(s, " | "); i > 0 {
		return s[:i]
	}
	return s
}

func replayCase(c callCase) string {
	group, name, _ := strings.Cut(c.Target, "/")
	for _, tg := range targets[group] {
		if tg.name == name {
			obs, _ := runTarget(group, tg, c.Input)
			return obs
		}
	}
	return ""
}

func TestSemver(t *testing.T) {
	for _, sys := range gen.Systems {
		rec.Check(t, "semver."+sys.String(), ev.N(2500, 200000), semverGroupProp(sys))
	}
}

func TestPyPI(t *testing.T) { rec.Check(t, "pypi", ev.N(5000, 500000), pypiProp) }

func TestMaven(t *testing.T) { rec.Check(t, "maven", ev.N(5000, 500000), mavenProp) }

func TestSchema(t *testing.T) { rec.Check(t, "schema", ev.N(5000, 500000), schemaProp) }

func TestReplay(t *testing.T) {
	path := ev.ReplayFile()
	if path == "" {
		t.Skip("no replay file")
	}
	var c callCase
	if _, err := ev.ReadReplay(path, &c); err != nil {
		t.Fatal(err)
	}
	if obs := replayCase(c); obs != "" && knownClass(c, obs) == "" {
		t.Fatalf("replay fails: %s", obs)
	}
}
