package c04

import (
	"testing"

	"deps.dev/util/resolve/verifh/internal/gen"
)

// Native coverage-guided fuzz targets (thorough tier). Each drives the same
// guarded target table; a panic or hang fails the fuzz run and the saved input
// is the replay unit.

func fuzzGroup(t *testing.T, group string, x in) {
	for _, tg := range targets[group] {
		if obs, _ := runTarget(group, tg, x); obs != "" {
			if knownClass(callCase{group + "/" + tg.name, x}, obs) != "" {
				continue
			}
			t.Fatalf("%s/%s input=%q,%q,%q: %s", group, tg.name, x.A, x.B, x.C, obs)
		}
	}
}

var semverSeeds = []string{"1.0.0", "v1.2.3-alpha.1+b", "1!2.0rc1.post2.dev3+a-b", "1.0-Final-SNAPSHOT", "1.2.3.a.0.b", "1.0.*", "1.0.0-*", "^1.2 || ~2 <3", ">=1,<2,!=1.5.*", "[1.0,2.0),(3,)", "1 - 2", "{[1.0.0:2.∞.∞],3.0.0}", "{<empty>}", "∞.∞.∞", "9223372036854775807", "${a}", "((((", "\xff\xfe"}

func FuzzSemver(f *testing.F) {
	for i, s := range semverSeeds {
		f.Add(uint8(i), s, "1.0.0", s)
	}
	f.Fuzz(func(t *testing.T, sysb uint8, a, b, c string) {
		if len(a)+len(b)+len(c) > 1<<16 {
			return
		}
		sys := gen.Systems[int(sysb)%len(gen.Systems)]
		fuzzGroup(t, "semver."+sys.String(), in{a, b, c})
	})
}

func FuzzPyPI(f *testing.F) {
	for _, s := range []string{"requests[security,socks] (>=2.0, <3) ; python_version < \"3\"", "Metadata-Version: 2.1\nName: x\nVersion: 1\nRequires-Dist: a>1\n\nbody", "foo-1.0-1b-py3-none-any.whl", "foo-1.0.tar.gz", "PK\x03\x04", "\x1f\x8b\x08"} {
		f.Add(s, "foo")
	}
	f.Fuzz(func(t *testing.T, a, b string) {
		if len(a) > 1<<16 {
			return
		}
		fuzzGroup(t, "pypi", in{A: a, B: b})
	})
}

func FuzzMaven(f *testing.F) {
	f.Add("<project><groupId>g</groupId><artifactId>a</artifactId><version>${v}</version><properties><v>${v}</v></properties><dependencies><dependency><groupId>g</groupId><artifactId>b</artifactId><version>${v}</version></dependency></dependencies></project>", "<project><dependencyManagement><dependencies><dependency><groupId>g</groupId><artifactId>b</artifactId><version>1</version><type>pom</type><scope>import</scope></dependency></dependencies></dependencyManagement></project>", "")
	f.Add("g:a|h", "provided", "x")
	f.Fuzz(func(t *testing.T, a, b, c string) {
		if len(a)+len(b) > 1<<16 {
			return
		}
		fuzzGroup(t, "maven", in{a, b, c})
	})
}

func FuzzSchema(f *testing.F) {
	f.Add("a\n\t1.0.0\n\t\tATTR: Tags latest\n\t\tDev|b@^1\nb\n\tBlocked|1.0.0\n", "a")
	f.Add("r 1\n\t1: Dev|a@* 1\n\t\t$1@*\n\tx@1 ERROR: boom\n", "")
	f.Add("r 1\n\t$1@*\n\t\t$1@*\n\t\t\t$1@*\n", "")
	f.Fuzz(func(t *testing.T, a, b string) {
		if len(a) > 1<<14 {
			return
		}
		fuzzGroup(t, "schema", in{A: a, B: b})
	})
}

func FuzzResolvers(f *testing.F) {
	f.Add("a\n\t1.0.0\n\t\tEnvironment \"python_version < '3' and (extra == 'x' or os_name in 'posix')\"|b@>=1\nb\n\t1.0.0\n\t2.0.0a1\n")
	f.Add("g:a\n\t1.0\n\t\tMavenExclusions \"g:b|*:*\"|g:b@[1.0,)\ng:b\n\t1.0\n")
	f.Add("a\n\t1.0.0\n\t\tKnownAs zz|b@npm:b@^1\n\t\tScope bundle|b@*\nb\n\t1.0.0\n\t\tATTR: Tags latest\n")
	f.Fuzz(func(t *testing.T, a string) {
		if len(a) > 1<<12 {
			return
		}
		fuzzGroup(t, "resolvers", in{A: a})
	})
}

func FuzzAPIClient(f *testing.F) {
	f.Add(`[{"Key":"g:a@1","Parent":"g:b@1","Deps":[{"Name":"g:c","Version":"${v}"}],"Mgmt":[{"Name":"g:a","Version":"1","Type":"pom","Scope":"import"}],"Props":[["v","${v}"]],"Profiles":[{"ID":"p","NoActivation":true}]},{"Key":"g:b@1","Parent":"g:a@1"}]`)
	f.Fuzz(func(t *testing.T, a string) {
		if len(a) > 1<<12 {
			return
		}
		fuzzGroup(t, "apiclient", in{A: a})
	})
}
