package c04

import (
	"archive/tar"
	"archive/zip"
	"bytes"
	"compress/gzip"

	"pgregory.net/rapid"
)

// archiveBytes builds small valid wheels (zip) and sdists (zip / tar.gz) whose
// metadata files come from the metadata generator.
func archiveBytes() *rapid.Generator[string] {
	return rapid.Custom(func(t *rapid.T) string {
		md := metadataDoc().Draw(t, "md")
		files := map[string]string{}
		switch rapid.IntRange(0, 3).Draw(t, "layout") {
		case 0:
			files["foo-1.0.dist-info/METADATA"] = md
			files["foo-1.0.dist-info/WHEEL"] = "Wheel-Version: 1.0\n"
			files["foo/__init__.py"] = ""
		case 1:
			files["foo-1.0/PKG-INFO"] = md
			files["foo-1.0/setup.py"] = "setup(install_requires = ['x'])"
			files["foo-1.0/setup.cfg"] = "[options]\ninstall_requires =\n  y\n"
		case 2:
			files["foo-1.0/PKG-INFO"] = md
			files["foo-1.0/sub/PKG-INFO"] = md
			files["bar-1.0/PKG-INFO"] = md
		default:
			files["a.dist-info/METADATA"] = md
			files["b.dist-info/METADATA"] = md
		}
		var buf bytes.Buffer
		if rapid.Bool().Draw(t, "zip") {
			zw := zip.NewWriter(&buf)
			for n, c := range files {
				w, _ := zw.Create(n)
				w.Write([]byte(c))
			}
			zw.Close()
		} else {
			gz := gzip.NewWriter(&buf)
			tw := tar.NewWriter(gz)
			for n, c := range files {
				tw.WriteHeader(&tar.Header{Name: n, Mode: 0o644, Size: int64(len(c)), Typeflag: tar.TypeReg})
				tw.Write([]byte(c))
			}
			tw.Close()
			gz.Close()
		}
		return buf.String()
	})
}
