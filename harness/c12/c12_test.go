// C12 — requirement matching over a version list is exact, ordered and order-insensitive.
package c12

import (
	"context"
	"encoding/json"
	"fmt"
	"sort"
	"strings"
	"testing"

	"deps.dev/util/resolve"
	"deps.dev/util/resolve/verifh/internal/ev"
	"deps.dev/util/resolve/verifh/internal/gen"
	"deps.dev/util/resolve/verifh/internal/known"
	"deps.dev/util/resolve/verifh/internal/refmodel"
	"deps.dev/util/resolve/version"
	"deps.dev/util/semver"
	"pgregory.net/rapid"
)

var rec = ev.New("C12")
var kf *known.File

func TestMain(m *testing.M) {
	kf, _ = known.Load(ev.KnownFile())
	rec.Rule("(requirement, list of 0-8 distinct version records) for NPM, Maven, PyPI: requirements are ranges (random, and written with the list's own versions), tags, exact strings or unparsable text; tag lists may hold another tag containing the tag's text before it; a sixth of the npm cases put latest on a prerelease and ask for a window of prereleases around it; records are valid, prerelease, tagged and (NPM) unparsable versions; every permutation of the list up to 6 elements, 24 sampled permutations beyond; oracle = harness model (exactly the satisfying versions, ascending by the documented order with npm's latest rule, identical for every permutation) observed at resolve.SortVersions, resolve.MatchRequirement and LocalClient.MatchingVersions. One evaluation = one (requirement, list, permutation). Non-trivial: >= 3 versions, >= 1 match and >= 1 non-match, and a tag, prerelease or unparsable entry present. Distinct = distinct (system, requirement, list). A quarter of the PyPI lists also hold legacy strings that are not versions (range requirements only: the matches are asserted, the listing is not); the client clause re-adds two records before asking.")
	rec.Assume("per-version Constraint.Match is taken as given (C03 owns it); a quarter of the PyPI lists also hold legacy strings that are not PEP 440 versions, with range requirements only: they satisfy no range, the listing as a whole is then not asserted (the order of an unparsable non-NPM string is not defined), the matches are")
	ev.Main(m, rec)
}

type listCase struct {
	System string         `json:"system"`
	Req    string         `json:"req"`
	List   []refmodel.Rec `json:"list"`
	Perm   []int          `json:"perm,omitempty"`
}

var systems = map[string]resolve.System{"NPM": resolve.NPM, "Maven": resolve.Maven, "PyPI": resolve.PyPI}

func mkVersions(sys resolve.System, list []refmodel.Rec, perm []int) []resolve.Version {
	out := make([]resolve.Version, len(perm))
	for i, k := range perm {
		var a version.AttrSet
		if list[k].Tags != "" {
			a.SetAttr(version.Tags, list[k].Tags)
		}
		switch list[k].Other {
		case "Blocked":
			a.SetAttr(version.Blocked, "")
		case "Redirect":
			a.SetAttr(version.Redirect, "elsewhere")
		case "Features":
			a.SetAttr(version.Features, "f")
		}
		out[i] = resolve.Version{
			VersionKey: resolve.VersionKey{PackageKey: resolve.PackageKey{System: sys, Name: "p"}, VersionType: resolve.Concrete, Version: list[k].Version},
			AttrSet:    a,
		}
	}
	return out
}

func strs(vs []resolve.Version) []string {
	out := make([]string, len(vs))
	for i, v := range vs {
		out[i] = v.Version
	}
	return out
}

// expectation computes the model's answer: the full listing as classes, and the
// matching sub-sequence as classes.
func expectation(sv semver.System, req string, list []refmodel.Rec) (listing [][]string, matched [][]string, nmatch int) {
	listing = refmodel.SortedClasses(sv, list)
	// A flat listing consistent with the classes, to evaluate "first hit" rules.
	byName := map[string]refmodel.Rec{}
	for _, r := range list {
		byName[r.Version] = r
	}
	var flat []refmodel.Rec
	for _, cl := range listing {
		for _, v := range cl {
			flat = append(flat, byName[v])
		}
	}
	hit := map[string]bool{}
	for _, v := range refmodel.Matches(sv, req, flat) {
		hit[v] = true
	}
	for _, cl := range listing {
		var sub []string
		for _, v := range cl {
			if hit[v] {
				sub = append(sub, v)
			}
		}
		if len(sub) > 0 {
			matched = append(matched, sub)
			nmatch += len(sub)
		}
	}
	return
}

// checkPerm evaluates the three observation points for one permutation.
func checkPerm(sysName string, req string, list []refmodel.Rec, perm []int) (string, string) {
	sys := systems[sysName]
	sv := sys.Semver()
	// Outside NPM the order of a string that is not a version is not defined;
	// such an entry satisfies no range, so the expectation is computed on the
	// versions that parse and the listing as a whole is not asserted.
	parsable := list
	if sysName != "NPM" {
		parsable = nil
		for _, r := range list {
			if _, err := sv.Parse(r.Version); err == nil {
				parsable = append(parsable, r)
			}
		}
	}
	listing, matched, _ := expectation(sv, req, parsable)
	// (a) SortVersions
	vs := mkVersions(sys, list, perm)
	resolve.SortVersions(vs)
	if len(parsable) == len(list) && refmodel.CountLatest(list) <= 1 && !refmodel.SameClasses(strs(vs), listing) {
		return fmt.Sprintf("SortVersions(perm %v) = %q; expected classes %q", perm, strs(vs), listing), "ascending documented order for every permutation"
	}
	rk := resolve.VersionKey{PackageKey: resolve.PackageKey{System: sys, Name: "p"}, VersionType: resolve.Requirement, Version: req}
	// (b) MatchRequirement called directly on the permuted list
	got := resolve.MatchRequirement(rk, mkVersions(sys, list, perm))
	if !refmodel.SameClasses(strs(got), matched) {
		return fmt.Sprintf("MatchRequirement(%q, perm %v of the list) = %q; expected classes %q", req, perm, strs(got), matched), "exactly the satisfying versions, ascending, for every permutation"
	}
	// (c) LocalClient with versions inserted in permuted order
	lc := resolve.NewLocalClient()
	for _, v := range mkVersions(sys, list, perm) {
		lc.AddVersion(v, nil)
	}
	// adding a record again replaces it with itself: nothing may change
	if vs := mkVersions(sys, list, perm); len(vs) > 0 {
		lc.AddVersion(vs[len(vs)/2], nil)
		lc.AddVersion(vs[0], nil)
	}
	if len(list) > 0 {
		ms, err := lc.MatchingVersions(context.Background(), rk)
		if err != nil {
			return fmt.Sprintf("LocalClient.MatchingVersions fails: %v", err), "no error"
		}
		if !refmodel.SameClasses(strs(ms), matched) {
			return fmt.Sprintf("LocalClient.MatchingVersions(%q) after inserting in order %v = %q; expected classes %q", req, perm, strs(ms), matched), "exactly the satisfying versions, ascending, for every insertion order"
		}
	}
	return "", ""
}

var npmVersions = []string{"1.0.0", "v1.0.0", "1.0.0-alpha", "1.0.0-beta.2", "2.0.0", "1.2.3", "1.2.4", "0.9.0", "2.0.0-rc.1", "3.0.0", "not-a-version", "latest-build", "1.0.0+b", "1.10.0"}
var mavenVersions = []string{"1.0", "1.0.0", "1.0-alpha", "1.0-rc1", "2.0", "1.2.3", "1.2.4", "0.9", "2.0-SNAPSHOT", "3.0", "1.0-sp", "1.10", "1.0.1-foo"}
var pypiVersions = []string{"1.0", "1.0.0", "1.0a1", "1.0rc1", "2.0", "1.2.3", "1.2.4", "0.9", "2.0.dev1", "3.0", "1.0.post1", "1.10", "1!0.5"}

func drawCase(t *rapid.T, sysName string) listCase {
	var pool []string
	switch sysName {
	case "NPM":
		pool = npmVersions
	case "Maven":
		pool = mavenVersions
	default:
		pool = pypiVersions
	}
	n := rapid.IntRange(0, 8).Draw(t, "n")
	order := rapid.Permutation(seq(len(pool))).Draw(t, "pick")
	var list []refmodel.Rec
	tags := []string{"latest", "next", "beta"}
	ti := 0
	for i := 0; i < n && i < len(order); i++ {
		r := refmodel.Rec{Version: pool[order[i]]}
		if sysName == "NPM" && ti < len(tags) && rapid.IntRange(0, 3).Draw(t, "tag") == 0 {
			r.Tags = tags[ti]
			// sometimes preceded by another tag that merely contains its text
			if rapid.IntRange(0, 3).Draw(t, "decoybefore") == 0 {
				r.Tags = rapid.SampledFrom([]string{tags[ti] + "-7,", "pre" + tags[ti] + ",", "x" + tags[ti] + "x,"}).Draw(t, "decoytag") + tags[ti]
			}
			ti++
			if rapid.IntRange(0, 4).Draw(t, "second") == 0 && ti < len(tags) {
				r.Tags += "," + tags[ti]
				ti++
			}
		} else if sysName == "NPM" && rapid.IntRange(0, 9).Draw(t, "decoy") == 0 {
			r.Tags = "latest-" + fmt.Sprint(i) // a different tag that merely contains "latest"
		}
		// a deprecated (Blocked) or otherwise attributed version lists and matches
		// like any other
		if rapid.IntRange(0, 3).Draw(t, "other") == 0 {
			r.Other = rapid.SampledFrom([]string{"Blocked", "Blocked", "Redirect", "Features"}).Draw(t, "otherattr")
		}
		list = append(list, r)
	}
	// npm: a sixth of the cases put the latest tag on a prerelease and ask for
	// a window of prereleases around it (the tag's special position depends on
	// whether releases exist in the list, not among the matches)
	if sysName == "NPM" && rapid.IntRange(0, 5).Draw(t, "prelatest") == 0 {
		T := rapid.SampledFrom([]string{"1.0.0", "2.0.0"}).Draw(t, "T")
		lo, hi := T+"-alpha", T+rapid.SampledFrom([]string{"-beta.2", "-rc.1"}).Draw(t, "hi")
		keep := list[:0:0]
		for _, r := range list {
			if r.Version != lo && r.Version != hi && !strings.Contains(r.Tags, "latest") {
				keep = append(keep, r)
			}
		}
		list = append(keep, refmodel.Rec{Version: lo, Tags: "latest"}, refmodel.Rec{Version: hi})
		if rapid.Bool().Draw(t, "lowrelease") {
			list = append(list, refmodel.Rec{Version: "0.8.0"})
		}
		perm := rapid.Permutation(seq(len(list))).Draw(t, "listorder")
		shuffled := make([]refmodel.Rec, len(list))
		for i, k := range perm {
			shuffled[i] = list[k]
		}
		list = shuffled
		req := rapid.SampledFrom([]string{">=" + lo + " <" + T, ">=" + lo, lo + " || " + hi, "^" + lo, ">" + lo, "<=" + hi, ">=" + lo + " <=" + hi}).Draw(t, "prereq")
		return listCase{System: sysName, Req: req, List: list}
	}
	var req string
	sv := systems[sysName].Semver()
	// PyPI: a quarter of the lists also hold legacy strings that are not
	// PEP 440 versions (pytz 2004d); they satisfy no range, and the versions
	// that do must still come back in ascending order.
	legacy := false
	if sysName == "PyPI" && len(list) > 0 && rapid.IntRange(0, 3).Draw(t, "legacy") == 0 {
		legacy = true
		for i, n := 0, rapid.IntRange(1, 2).Draw(t, "nlegacy"); i < n; i++ {
			r := refmodel.Rec{Version: []string{"2004d", "1x"}[i]}
			at := rapid.IntRange(0, len(list)).Draw(t, "legacyat")
			list = append(list[:at:at], append([]refmodel.Rec{r}, list[at:]...)...)
		}
	}
	kmax := 9
	if legacy {
		kmax = 4 // ranges only
	}
	switch k := rapid.IntRange(0, kmax).Draw(t, "reqkind"); {
	case k < 3 || len(list) == 0:
		req = gen.Constraint(sv).Draw(t, "range")
	case k < 5:
		// a requirement written with versions of the list itself: bounds fall on
		// and between listed versions, prereleases and tagged versions included
		a := list[rapid.IntRange(0, len(list)-1).Draw(t, "aima")].Version
		b := list[rapid.IntRange(0, len(list)-1).Draw(t, "aimb")].Version
		if legacy {
			if _, err := sv.Parse(a); err != nil {
				a = "1.0"
			}
			if _, err := sv.Parse(b); err != nil {
				b = "9.0"
			}
		}
		switch sysName {
		case "NPM":
			req = rapid.SampledFrom([]string{">=" + a, ">=" + a + " <" + b, a + " || " + b, "<=" + a, ">" + a, "^" + a, "~" + a, ">=" + a + " <=" + b}).Draw(t, "aimform")
		case "Maven":
			req = rapid.SampledFrom([]string{"[" + a + ",)", "[" + a + "," + b + ")", "[" + a + "],[" + b + "]", "(," + a + "]", "(" + a + ",)", "[" + a + "," + b + "]", a}).Draw(t, "aimform")
		default:
			req = rapid.SampledFrom([]string{">=" + a, ">=" + a + ",<" + b, "<=" + a, ">" + a, "==" + a, "!=" + a, "~=" + a, ">=" + a + ",<=" + b}).Draw(t, "aimform")
		}
	case k < 6 && sysName == "NPM":
		req = rapid.SampledFrom([]string{"latest", "next", "beta", "nope", "latest-0"}).Draw(t, "tagreq")
	case k < 8 && len(list) > 0:
		req = list[rapid.IntRange(0, len(list)-1).Draw(t, "exact")].Version
	case k < 9:
		req = rapid.SampledFrom([]string{"not a range !!", "", "*", "git+https://x/y.git", "file:../z"}).Draw(t, "junk")
	default:
		switch sysName {
		case "NPM":
			req = rapid.SampledFrom([]string{"^1.0.0", ">=1.0.0-alpha <2.0.0", "1.x", "~1.2", "<2", "*", ">=1.0.0 || 0.9.0"}).Draw(t, "fixed")
		case "Maven":
			req = rapid.SampledFrom([]string{"[1.0,2.0)", "[1.0]", "(,1.2.3]", "1.0", "[1.0-alpha,)", "[0.9,1.0],[2.0,)"}).Draw(t, "fixed")
		default:
			req = rapid.SampledFrom([]string{">=1.0", "==1.0", "<2.0", "~=1.2", "!=1.0", ">=1.0a1", "==1.*", ">=1.0,<2.0"}).Draw(t, "fixed")
		}
	}
	return listCase{System: sysName, Req: req, List: list}
}

func seq(n int) []int {
	s := make([]int, n)
	for i := range s {
		s[i] = i
	}
	return s
}

func permutations(n int, f func([]int) bool) {
	p := seq(n)
	var rec func(k int) bool
	rec = func(k int) bool {
		if k == n {
			return f(p)
		}
		for i := k; i < n; i++ {
			p[k], p[i] = p[i], p[k]
			if !rec(k + 1) {
				return false
			}
			p[k], p[i] = p[i], p[k]
		}
		return true
	}
	rec(0)
}

func special(list []refmodel.Rec, sv semver.System) bool {
	for _, r := range list {
		if r.Tags != "" {
			return true
		}
		v, err := sv.Parse(r.Version)
		if err != nil || v.IsPrerelease() {
			return true
		}
	}
	return false
}

func prop(sysName string) func(*rapid.T) {
	return func(t *rapid.T) {
		c := drawCase(t, sysName)
		rec.SetCase(c)
		n := len(c.List)
		sv := systems[sysName].Semver()
		_, _, nmatch := expectation(sv, c.Req, c.List)
		nontrivial := n >= 3 && nmatch >= 1 && nmatch < n && special(c.List, sv)
		if nontrivial {
			b, _ := json.Marshal(c)
			rec.NonTrivial(string(b))
			rec.Class("nontrivial")
			if rec.WantSample() {
				rec.Sample(c)
			}
		}
		var failPerm []int
		var obs, exp string
		if n <= 6 {
			permutations(n, func(p []int) bool {
				rec.Eval(1)
				if o, e := checkPerm(sysName, c.Req, c.List, p); o != "" {
					obs, exp, failPerm = o, e, append([]int(nil), p...)
					return false
				}
				return true
			})
		} else {
			for i := 0; i < 24 && obs == ""; i++ {
				p := rapid.Permutation(seq(n)).Draw(t, "perm")
				rec.Eval(1)
				if o, e := checkPerm(sysName, c.Req, c.List, p); o != "" {
					obs, exp, failPerm = o, e, p
				}
			}
		}
		if obs != "" {
			c.Perm = failPerm
			rec.Fail(t, c, obs, exp)
		}
	}
}

func TestCorpus(t *testing.T) {
	rec.SetCheck("corpus")
	for _, fd := range kf.For("C12") {
		var c listCase
		if err := json.Unmarshal(fd.Witness, &c); err != nil {
			t.Fatalf("bad witness %s: %v", fd.ID, err)
		}
		if obs, _ := checkPerm(c.System, c.Req, c.List, c.Perm); obs != "" {
			rec.Known(fd.ID, fd.Text+" ["+obs+"]")
		}
	}
}

func TestLists(t *testing.T) {
	for _, s := range []string{"NPM", "Maven", "PyPI"} {
		rec.Check(t, "lists/"+s, ev.N(1500, 200000), prop(s))
	}
}

func TestReplay(t *testing.T) {
	path := ev.ReplayFile()
	if path == "" {
		t.Skip("no replay file")
	}
	var c listCase
	if _, err := ev.ReadReplay(path, &c); err != nil {
		t.Fatal(err)
	}
	perm := c.Perm
	if len(perm) != len(c.List) {
		perm = seq(len(c.List))
	}
	if obs, exp := checkPerm(c.System, c.Req, c.List, perm); obs != "" {
		t.Fatalf("replay fails: %s (expected %s)", obs, exp)
	}
	_ = sort.Strings
	_ = strings.Join
}
