package c05

import (
	"context"
	"encoding/json"
	"os"
	"testing"
	"time"

	"deps.dev/util/resolve"
	"deps.dev/util/resolve/schema"
	"deps.dev/util/resolve/verifh/internal/gen"
)

// TestMinimizeHang (development aid): VERIF_MINIMIZE=<replay file>
// VERIF_MINIMIZE_ROOT=name@version shrinks a universe on which the resolver
// does not return.
func TestMinimizeHang(t *testing.T) {
	path := os.Getenv("VERIF_MINIMIZE")
	if path == "" {
		t.Skip("VERIF_MINIMIZE not set")
	}
	b, err := os.ReadFile(path)
	if err != nil {
		t.Fatal(err)
	}
	var doc struct {
		Case histCase `json:"case"`
	}
	if err := json.Unmarshal(b, &doc); err != nil {
		t.Fatal(err)
	}
	root := os.Getenv("VERIF_MINIMIZE_ROOT")
	name, ver := root[:lastAt(root)], root[lastAt(root)+1:]
	hangs := func(u gen.Universe) bool {
		sys := systems[u.System]
		s, err := schema.New(u.Text(), sys)
		if err != nil {
			return false
		}
		res := newResolver(u.System, s.NewClient())
		ctx, cancel := context.WithCancel(context.Background())
		defer cancel()
		done := make(chan struct{}, 1)
		go func() {
			res.Resolve(ctx, resolve.VersionKey{PackageKey: resolve.PackageKey{System: sys, Name: name}, VersionType: resolve.Concrete, Version: ver})
			done <- struct{}{}
		}()
		select {
		case <-done:
			return false
		case <-time.After(1500 * time.Millisecond):
			return true
		}
	}
	if !hangs(doc.Case.Universe) {
		t.Fatal("does not hang")
	}
	u := gen.MinimizeUniverse(doc.Case.Universe, hangs)
	t.Logf("minimal:\n%s", u.Text())
}

func lastAt(s string) int {
	for i := len(s) - 1; i >= 0; i-- {
		if s[i] == '@' {
			return i
		}
	}
	return 0
}
