// C05 — resolution is a pure function of the package universe and the root.
package c05

import (
	"context"
	"encoding/json"
	"fmt"
	"os"
	"sort"
	"strings"
	"sync"
	"testing"
	"time"

	"deps.dev/util/resolve"
	"deps.dev/util/resolve/dep"
	mavenresolve "deps.dev/util/resolve/maven"
	npmresolve "deps.dev/util/resolve/npm"
	pypiresolve "deps.dev/util/resolve/pypi"
	"deps.dev/util/resolve/schema"
	"deps.dev/util/resolve/version"
	"deps.dev/util/resolve/verifh/internal/ev"
	"deps.dev/util/resolve/verifh/internal/gen"
	"deps.dev/util/resolve/verifh/internal/iso"
	"deps.dev/util/resolve/verifh/internal/known"
	"pgregory.net/rapid"
)

var rec = ev.New("C05")
var kf *known.File
var raceMode = os.Getenv("VERIF_RACE") != ""

func TestMain(m *testing.M) {
	kf, _ = known.Load(ev.KnownFile())
	rec.Rule("generated universes (npm, Maven, PyPI; 2-12 packages, 1-5 versions each, cycles, conflicts, tags, markers, extras, exclusions aimed at reachable artifacts; successive versions share requirement lists; npm with aliases, bundled packages and versions of equal precedence; PyPI with extras-heavy universes and four resolver stress shapes), an all-roots sweep per universe (every root once in a drawn order and once reversed on one client and resolver) and histories drawn by a rapid state machine over one client/resolver: resolve(root), resolveAgain, resolveConcurrently(up to 16 roots; PyPI one resolver per goroutine over the shared client), reloadPermuted (same data inserted in another order), with the client snapshot checked after every action; oracle = metamorphic: every returned graph equals (harness isomorphism labeller, Duration ignored) the graph of a brand-new client and resolver for that root, and Versions/Requirements/MatchingVersions for every package, version and requirement string of the universe are unchanged, order included, as is every attribute of every version and requirement read key by key (the printed form of an attribute set does not show a value written through a shared copy). The -race binary runs the concurrent histories; any data race report fails the run. One evaluation = one Resolve compared with its fresh twin. Non-trivial: a history with >= 2 resolves of different roots before the checked one, a concurrent batch >= 4, or a permuted reload. Distinct = distinct (universe, history). Maven and PyPI universes carry a second spelling of some versions (1.0 next to 1.0.0, equal in precedence).")
	ev.Main(m, rec)
}

var systems = map[string]resolve.System{"npm": resolve.NPM, "maven": resolve.Maven, "pypi": resolve.PyPI}

func newResolver(sys string, c resolve.Client) resolve.Resolver {
	switch sys {
	case "npm":
		return npmresolve.NewResolver(c)
	case "maven":
		return mavenresolve.NewResolver(c)
	}
	return pypiresolve.NewResolver(c)
}

// ---- history ---------------------------------------------------------------------

type action struct {
	Kind  string `json:"kind"` // resolve | again | concurrent | reload
	Root  int    `json:"root,omitempty"`
	Roots []int  `json:"roots,omitempty"`
	Perm  []int  `json:"perm,omitempty"`
}

type histCase struct {
	Universe gen.Universe `json:"universe"`
	Actions  []action     `json:"actions"`
}

func vkOf(sys resolve.System, r [2]string) resolve.VersionKey {
	return resolve.VersionKey{PackageKey: resolve.PackageKey{System: sys, Name: r[0]}, VersionType: resolve.Concrete, Version: r[1]}
}

// buildClient loads the universe; perm (over all (package, version) pairs)
// gives the insertion order.
func buildClient(u gen.Universe, perm []int) (*resolve.LocalClient, *schema.Schema, error) {
	s, err := schema.New(u.Text(), systems[u.System])
	if err != nil {
		return nil, nil, err
	}
	if perm == nil {
		return s.NewClient(), s, nil
	}
	type pv struct{ p, v int }
	var all []pv
	for i, p := range s.Packages {
		for j := range p.Versions {
			all = append(all, pv{i, j})
		}
	}
	c := resolve.NewLocalClient()
	for _, k := range perm {
		if k >= len(all) {
			continue
		}
		v := s.Packages[all[k].p].Versions[all[k].v]
		reqs := append([]resolve.RequirementVersion(nil), v.Requirements...)
		resolve.SortDependencies(reqs)
		c.AddVersion(resolve.Version{VersionKey: v.VersionKey, AttrSet: v.Attr}, reqs)
	}
	return c, s, nil
}

// snapshot renders everything the client reports, order included.
// depAttrs and verAttrs read every attribute key through GetAttr: the printed
// form of a set is driven by its key bits, the stored values live in a map
// that a copy of the set shares, so a write through a copy shows only here.
func depAttrs(t dep.Type) string {
	var sb strings.Builder
	for _, k := range []dep.AttrKey{dep.Dev, dep.Opt, dep.Test, dep.XTest, dep.Framework, dep.Scope, dep.MavenClassifier, dep.MavenArtifactType, dep.MavenDependencyOrigin, dep.MavenExclusions, dep.EnabledDependencies, dep.KnownAs, dep.Environment, dep.Selector} {
		if v, ok := t.GetAttr(k); ok {
			fmt.Fprintf(&sb, "{%d=%q}", k, v)
		}
	}
	return sb.String()
}

func verAttrs(a version.AttrSet) string {
	var sb strings.Builder
	for _, k := range []version.AttrKey{version.Blocked, version.Deleted, version.Error, version.Redirect, version.Features, version.DerivedFrom, version.NativeLibrary, version.Registries, version.SupportedFrameworks, version.DependencyGroups, version.Ident, version.Created, version.Tags} {
		if v, ok := a.GetAttr(k); ok {
			fmt.Fprintf(&sb, "{%d=%q}", k, v)
		}
	}
	return sb.String()
}

func snapshot(c resolve.Client, s *schema.Schema) string {
	ctx := context.Background()
	var sb strings.Builder
	reqStrings := map[string]bool{"*": true}
	for _, p := range s.Packages {
		for _, v := range p.Versions {
			for _, r := range v.Requirements {
				reqStrings[r.Version] = true
			}
		}
	}
	var rs []string
	for r := range reqStrings {
		rs = append(rs, r)
	}
	sort.Strings(rs)
	for _, p := range s.Packages {
		vs, err := c.Versions(ctx, p.PackageKey)
		fmt.Fprintf(&sb, "V %s: err=%v", p.Name, err)
		for _, v := range vs {
			fmt.Fprintf(&sb, " %s%s%s", v.Version, v.AttrSet, verAttrs(v.AttrSet))
		}
		sb.WriteByte('\n')
		for _, v := range p.Versions {
			reqs, err := c.Requirements(ctx, v.VersionKey)
			fmt.Fprintf(&sb, "R %s@%s: err=%v", p.Name, v.Version, err)
			for _, r := range reqs {
				fmt.Fprintf(&sb, " %s@%s[%s]%s", r.Name, r.Version, r.Type, depAttrs(r.Type))
			}
			sb.WriteByte('\n')
		}
		for _, r := range rs {
			ms, err := c.MatchingVersions(ctx, resolve.VersionKey{PackageKey: p.PackageKey, VersionType: resolve.Requirement, Version: r})
			fmt.Fprintf(&sb, "M %s@%s: err=%v", p.Name, r, err)
			for _, v := range ms {
				fmt.Fprintf(&sb, " %s", v.Version)
			}
			sb.WriteByte('\n')
		}
	}
	return sb.String()
}

// resolveTimeout bounds one Resolve; a resolution of these small universes
// takes milliseconds, so exceeding it is reported (C04 owns totality, but a
// hang would otherwise wedge this check).
const resolveTimeout = 20 * time.Second

func guardedResolve(res resolve.Resolver, vk resolve.VersionKey) (g *resolve.Graph, err error, hung bool) {
	type out struct {
		g   *resolve.Graph
		err error
	}
	ch := make(chan out, 1)
	ctx, cancel := context.WithCancel(context.Background())
	defer cancel()
	go func() {
		g, err := res.Resolve(ctx, vk)
		ch <- out{g, err}
	}()
	tm := time.NewTimer(resolveTimeout)
	defer tm.Stop()
	select {
	case o := <-ch:
		return o.g, o.err, false
	case <-tm.C:
		return nil, nil, true
	}
}

func graphKey(g *resolve.Graph, err error) string {
	if err != nil {
		return "ERR:" + err.Error()
	}
	if g == nil {
		return "NIL"
	}
	c := iso.FromResolve(g).Canon()
	if c == "" {
		return "" // labeller budget exceeded: inconclusive
	}
	return c
}

type runner struct {
	u      gen.Universe
	sys    resolve.System
	roots  [][2]string
	fresh  map[int]string
	client *resolve.LocalClient
	sch    *schema.Schema
	res    resolve.Resolver
	snap   string
	last   int
}

func newRunner(u gen.Universe) (*runner, error) {
	r := &runner{u: u, sys: systems[u.System], roots: u.Roots(), fresh: map[int]string{}, last: -1}
	c, s, err := buildClient(u, nil)
	if err != nil {
		return nil, err
	}
	r.client, r.sch = c, s
	r.res = newResolver(u.System, c)
	r.snap = snapshot(c, s)
	return r, nil
}

func (r *runner) freshKey(i int) string {
	if k, ok := r.fresh[i]; ok {
		return k
	}
	c, _, _ := buildClient(r.u, nil)
	g, err, hung := guardedResolve(newResolver(r.u.System, c), vkOf(r.sys, r.roots[i]))
	k := graphKey(g, err)
	if hung {
		k = "HUNG"
	}
	r.fresh[i] = k
	return k
}

func (r *runner) checkSnapshot(after string) (string, string) {
	if s := snapshot(r.client, r.sch); s != r.snap {
		return fmt.Sprintf("after %s the client reports differently:\n%s", after, firstDiff(r.snap, s)), "client unchanged by resolution"
	}
	return "", ""
}

func firstDiff(a, b string) string {
	al, bl := strings.Split(a, "\n"), strings.Split(b, "\n")
	for i := 0; i < len(al) && i < len(bl); i++ {
		if al[i] != bl[i] {
			return "before: " + al[i] + "\nafter:  " + bl[i]
		}
	}
	return "length differs"
}

// apply executes one action and returns a violation (obs, exp) or "".
func (r *runner) apply(a action) (string, string) {
	switch a.Kind {
	case "resolve", "again":
		i := a.Root
		if a.Kind == "again" {
			if r.last < 0 {
				return "", ""
			}
			i = r.last
		}
		if i >= len(r.roots) {
			return "", ""
		}
		r.last = i
		want := r.freshKey(i)
		if want == "HUNG" {
			return fmt.Sprintf("Resolve(%s@%s) on a fresh client did not return within %v", r.roots[i][0], r.roots[i][1], resolveTimeout), "returns"
		}
		g, err, hung := guardedResolve(r.res, vkOf(r.sys, r.roots[i]))
		if hung {
			return fmt.Sprintf("Resolve(%s@%s) did not return within %v", r.roots[i][0], r.roots[i][1], resolveTimeout), "returns"
		}
		got := graphKey(g, err)
		rec.Eval(1)
		if want != "" && got != "" && got != want {
			return fmt.Sprintf("Resolve(%s@%s) on the used client/resolver differs from a fresh one:\n--- fresh ---\n%s\n--- this history ---\n%s", r.roots[i][0], r.roots[i][1], want, got), "same graph whatever ran before"
		}
		return r.checkSnapshot(fmt.Sprintf("Resolve(%s@%s)", r.roots[i][0], r.roots[i][1]))
	case "concurrent":
		var wg sync.WaitGroup
		got := make([]string, len(a.Roots))
		for k, i := range a.Roots {
			if i >= len(r.roots) {
				continue
			}
			wg.Add(1)
			go func(k, i int) {
				defer wg.Done()
				res := r.res
				if r.u.System == "pypi" {
					res = newResolver("pypi", r.client) // one resolver per goroutine over the shared client
				}
				g, err, hung := guardedResolve(res, vkOf(r.sys, r.roots[i]))
				got[k] = graphKey(g, err)
				if hung {
					got[k] = "HUNG"
				}
			}(k, i)
		}
		wg.Wait()
		for k, i := range a.Roots {
			if i >= len(r.roots) {
				continue
			}
			rec.Eval(1)
			want := r.freshKey(i)
			if want == "HUNG" {
				return fmt.Sprintf("Resolve(%s@%s) on a fresh client did not return within %v", r.roots[i][0], r.roots[i][1], resolveTimeout), "returns"
			}
			if got[k] == "HUNG" {
				return fmt.Sprintf("Resolve(%s@%s) did not return within %v", r.roots[i][0], r.roots[i][1], resolveTimeout), "returns"
			}
			if want != "" && got[k] != "" && got[k] != want {
				return fmt.Sprintf("concurrent Resolve(%s@%s) (batch of %d) differs from a fresh sequential one:\n--- fresh ---\n%s\n--- concurrent ---\n%s", r.roots[i][0], r.roots[i][1], len(a.Roots), want, got[k]), "same graph however many resolutions run concurrently"
			}
		}
		return r.checkSnapshot(fmt.Sprintf("a concurrent batch of %d", len(a.Roots)))
	case "reload":
		c, s, err := buildClient(r.u, a.Perm)
		if err != nil {
			return "", ""
		}
		r.client, r.sch = c, s
		r.res = newResolver(r.u.System, c)
		if snap := snapshot(c, s); snap != r.snap {
			return fmt.Sprintf("a client loaded in insertion order %v reports differently:\n%s", a.Perm, firstDiff(r.snap, snap)), "same reports whatever the insertion order"
		}
	}
	return "", ""
}

func runHistory(h histCase) (int, string, string) {
	r, err := newRunner(h.Universe)
	if err != nil {
		return -1, "", ""
	}
	for i, a := range h.Actions {
		if obs, exp := r.apply(a); obs != "" {
			return i, obs, exp
		}
	}
	return -1, "", ""
}

func universeGen(sys string) *rapid.Generator[gen.Universe] {
	switch sys {
	case "npm":
		return gen.NPMUniverse(gen.NPMOpts{Aliases: true, Ties: true, Bundles: true})
	case "maven":
		return gen.MavenUniverse(gen.MavenUOpts{Ties: true})
	}
	return gen.PyPIUniverseTies()
}

func seq(n int) []int {
	s := make([]int, n)
	for i := range s {
		s[i] = i
	}
	return s
}

// A resolution that does not return on an npm universe with aliases is the
// non-termination recorded under C04 (an alias repeated along a dependency
// cycle); the generator avoids the shape, and what slips through is counted
// here rather than reported as a purity violation.
func knownClass(h histCase, obs string) string {
	if !strings.Contains(obs, "on a fresh client did not return within") || h.Universe.System != "npm" || !kf.Open("C04", "NPMAliasCycleNonTermination") {
		return ""
	}
	for _, p := range h.Universe.Pkgs {
		for _, v := range p.Versions {
			for _, r := range v.Reqs {
				if strings.Contains(r.Type, "KnownAs ") {
					return "NPMAliasCycleNonTermination"
				}
			}
		}
	}
	return ""
}

func machine(sys string, concurrentOnly bool) func(*rapid.T) {
	return func(t *rapid.T) {
		u := universeGen(sys).Draw(t, "universe")
		h := histCase{Universe: u}
		r, err := newRunner(u)
		if err != nil {
			t.Fatalf("generator produced a universe the schema rejects: %v\n%s", err, u.Text())
		}
		nroots := len(r.roots)
		if nroots == 0 {
			return
		}
		distinctRoots := map[int]bool{}
		nontrivial := false
		step := func(a action) {
			h.Actions = append(h.Actions, a)
			rec.SetCase(h)
			if obs, exp := r.apply(a); obs != "" {
				if cl := knownClass(h, obs); cl != "" {
					rec.ExcludedKnown(cl)
					return
				}
				rec.Fail(t, h, obs, exp)
			}
		}
		acts := map[string]func(*rapid.T){
			"concurrent": func(t *rapid.T) {
				k := rapid.IntRange(2, 16).Draw(t, "k")
				var roots []int
				for i := 0; i < k; i++ {
					roots = append(roots, rapid.IntRange(0, nroots-1).Draw(t, "root"))
				}
				if k >= 4 {
					nontrivial = true
				}
				step(action{Kind: "concurrent", Roots: roots})
			},
		}
		if !concurrentOnly {
			acts["resolve"] = func(t *rapid.T) {
				i := rapid.IntRange(0, nroots-1).Draw(t, "root")
				if len(distinctRoots) >= 2 && !distinctRoots[i] || len(distinctRoots) >= 3 {
					nontrivial = true
				}
				distinctRoots[i] = true
				step(action{Kind: "resolve", Root: i})
			}
			acts["again"] = func(t *rapid.T) { step(action{Kind: "again"}) }
			acts["reload"] = func(t *rapid.T) {
				nontrivial = true
				nall := 0
				for _, p := range u.Pkgs {
					nall += len(p.Versions) // bundled (derived) packages included: they are data, not roots
				}
				step(action{Kind: "reload", Perm: rapid.Permutation(seq(nall)).Draw(t, "perm")})
			}
		}
		t.Repeat(acts)
		if nontrivial {
			b, _ := json.Marshal(h)
			rec.NonTrivial(string(b))
			rec.Class("nontrivial")
			if len(b) < 1500 && rec.WantSample() {
				rec.Sample(h)
			}
		}
		rec.ClassN("actions", len(h.Actions))
	}
}

// sweep resolves every root of a universe once on one client and resolver, in a
// drawn order and then in the reverse order: every ordered pair (earlier root,
// later root) of the universe is exercised, which the random walk of machine
// only samples.
func sweep(sys string) func(*rapid.T) {
	return func(t *rapid.T) {
		u := universeGen(sys).Draw(t, "universe")
		h := histCase{Universe: u}
		r, err := newRunner(u)
		if err != nil {
			t.Fatalf("generator produced a universe the schema rejects: %v\n%s", err, u.Text())
		}
		if len(r.roots) < 2 {
			return
		}
		order := rapid.Permutation(seq(len(r.roots))).Draw(t, "order")
		if len(order) > 16 {
			order = order[:16]
		}
		for pass := 0; pass < 2; pass++ {
			for k := range order {
				i := order[k]
				if pass == 1 {
					i = order[len(order)-1-k]
				}
				a := action{Kind: "resolve", Root: i}
				h.Actions = append(h.Actions, a)
				rec.SetCase(h)
				if obs, exp := r.apply(a); obs != "" {
					if cl := knownClass(h, obs); cl != "" {
						rec.ExcludedKnown(cl)
						return
					}
					rec.Fail(t, h, obs, exp)
				}
			}
		}
		b, _ := json.Marshal(h)
		rec.NonTrivial(string(b))
		rec.ClassN("actions", len(h.Actions))
	}
}

func TestCorpus(t *testing.T) {
	rec.SetCheck("corpus")
	for _, fd := range kf.For("C05") {
		var h histCase
		if err := json.Unmarshal(fd.Witness, &h); err != nil {
			t.Fatalf("bad witness %s: %v", fd.ID, err)
		}
		if i, obs, _ := runHistory(h); i >= 0 {
			rec.Known(fd.ID, fd.Text+" ["+strings.SplitN(obs, "\n", 2)[0]+"]")
		}
	}
}

func TestHistories(t *testing.T) {
	for _, sys := range []string{"npm", "maven", "pypi"} {
		if raceMode {
			rec.Check(t, "race/"+sys, ev.N(10, 4000), machine(sys, true))
		} else {
			rec.Check(t, "history/"+sys, ev.N(90, 30000), machine(sys, false))
			nsweep := ev.N(120, 40000)
			if sys == "maven" {
				nsweep = ev.N(260, 80000) // exclusions interact across roots only in rare shapes
			}
			rec.Check(t, "sweep/"+sys, nsweep, sweep(sys))
		}
	}
}

func TestReplay(t *testing.T) {
	path := ev.ReplayFile()
	if path == "" {
		t.Skip("no replay file")
	}
	var h histCase
	if _, err := ev.ReadReplay(path, &h); err != nil {
		t.Fatal(err)
	}
	if i, obs, exp := runHistory(h); i >= 0 && knownClass(h, obs) == "" {
		t.Fatalf("replay fails at action %d: %s (expected %s)", i, obs, exp)
	}
}
