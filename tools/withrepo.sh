#!/bin/bash
# Runs checks from a scratch copy of /verif against another checkout of the
# repository (a worktree under /tmp with an experimental change), leaving /repo
# and /verif alone. usage: tools/withrepo.sh <repo dir> <property id>... [-- tier]
cd "$(dirname "$0")/.."
R=$1; shift
tier=quick
ids=()
while [ $# -gt 0 ]; do if [ "$1" = "--" ]; then tier=$2; break; fi; ids+=("$1"); shift; done
V=/tmp/withrepo.$$
trap 'rm -rf $V' EXIT
rsync -a --exclude .git --exclude .build --exclude logs --exclude replays --exclude evidence --exclude seeded ./ $V/
sed -i "s#=> /repo/#=> $R/#" $V/harness/go.mod
export VERIF_REPO=$R
for id in "${ids[@]}"; do
  (cd $V && ./check $id $tier 2>&1) | grep -E "^(OK|VIOLATION|INCONCLUSIVE|BUILD-FAILURE)|observed=" | head -4 | cut -c1-500
done
