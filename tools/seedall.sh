#!/bin/bash
# Regression loop over every stored seeded change: each patch is applied to a
# scratch worktree and the check(s) of its property (quick tier; other ids when
# meta.json names them in verif_check_ids) are run from a scratch copy of
# /verif. Reports caught/missed. usage: tools/seedall.sh [parallelism] [name filter]
cd "$(dirname "$0")/.."
P=${1:-4}; F=${2:-}
ls seeded | grep -e "$F" | xargs -P "$P" -I{} bash -c '
  n={}; id=${n%%-*}
  ids=$(python3 -c "import json,sys; m=json.load(open(\"seeded/$n/meta.json\")); print(\" \".join(m.get(\"verif_check_ids\") or [\"$id\"]))")
  out=$(tools/seedtest.sh "$n" $ids 2>&1)
  if echo "$out" | grep -q "^VIOLATION"; then echo "$n caught"; else echo "$n MISSED"; echo "$out" | tail -3; fi'
