#!/bin/bash
# Regression loop over every stored seeded change: applies each patch, runs the
# check(s) of its property (quick tier), reports caught/missed, restores /repo.
cd "$(dirname "$0")/.."
for d in seeded/*/; do
  n=$(basename "$d"); id=${n%%-*}
  out=$(tools/seedtest.sh "$n" "$id" 2>&1)
  if echo "$out" | grep -q "^VIOLATION"; then echo "$n caught"; else echo "$n MISSED"; echo "$out" | tail -3; fi
done
