#!/bin/bash
# Runs every claimed check (quick by default) exactly as MANIFEST registers it,
# so that the evidence committed afterwards describes a standard run.
cd "$(dirname "$0")/.."
unset VERIF_SCALE VERIF_EXPLORE VERIF_ONLY
tier=${1:-quick}
rc=0
for id in $(python3 -c "import json;print(' '.join(c['property_id'] for c in json.load(open('MANIFEST.json'))['checks']))"); do
  out=$(./check $id $tier 2>&1); r=$?
  echo "$out" | grep -v '^KNOWN-FINDING' | cut -c1-300
  [ $r -ne 0 ] && rc=$r
done
exit $rc
