#!/bin/bash
# Applies a stored seeded change (seeded/<dir>/patch.diff) to a scratch worktree
# of /repo, runs the pinned suite of the util modules there, and runs the given
# checks from a scratch copy of /verif whose harness builds against that
# worktree. /repo and /verif are not touched, so this may run next to other
# checks. Everything under /tmp is removed at the end.
# usage: tools/seedtest.sh <seeded dir name> <property id>... [-- tier]
cd "$(dirname "$0")/.."
export GOFLAGS=-mod=mod GOPROXY=off GOSUMDB=off GOTOOLCHAIN=local
d=$1; shift
tier=quick
ids=()
while [ $# -gt 0 ]; do if [ "$1" = "--" ]; then tier=$2; break; fi; ids+=("$1"); shift; done
R=/tmp/seedrepo.$$; V=/tmp/seedverif.$$
cleanup() { git -C /repo worktree remove --force $R 2>/dev/null; rm -rf $R $V; git -C /repo worktree prune; }
trap cleanup EXIT
git -C /repo worktree add --detach -q $R HEAD || exit 2
# the worktree starts from HEAD; carry over uncommitted changes of /repo, if any
git -C /repo diff HEAD | git -C $R apply --allow-empty 2>/dev/null
git -C $R apply "$PWD/seeded/$d/patch.diff" || { echo "patch does not apply"; exit 2; }
fails=0
for m in util/semver util/maven util/pypi util/resolve; do
  out=$(cd $R/$m && go test -vet=off -count=1 ./... 2>&1 | grep -v "^ok\|no test files")
  [ -n "$out" ] && { echo "SUITE FAILS in $m:"; echo "$out" | head -5; fails=1; }
done
[ $fails = 0 ] && echo "suite: passes"
rsync -a --exclude .git --exclude .build --exclude logs --exclude replays --exclude evidence --exclude seeded ./ $V/
sed -i "s#=> /repo/#=> $R/#" $V/harness/go.mod
export VERIF_REPO=$R
for id in "${ids[@]}"; do
  (cd $V && ./check $id $tier 2>&1) | grep -E "^(OK|VIOLATION|INCONCLUSIVE|BUILD-FAILURE)|observed=" | head -3 | cut -c1-400
done
