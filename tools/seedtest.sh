#!/bin/bash
# Applies a stored seeded change (seeded/<dir>/patch.diff) to /repo, runs the
# pinned suite of the util modules and the given checks, and restores /repo.
# usage: tools/seedtest.sh <seeded dir name> <property id>... [-- tier]
cd "$(dirname "$0")/.."
export GOFLAGS=-mod=mod GOPROXY=off GOSUMDB=off GOTOOLCHAIN=local
d=$1; shift
tier=quick
ids=()
while [ $# -gt 0 ]; do if [ "$1" = "--" ]; then tier=$2; break; fi; ids+=("$1"); shift; done
if [ -n "$(git -C /repo status --porcelain)" ]; then echo "/repo not clean"; exit 2; fi
git -C /repo apply "$PWD/seeded/$d/patch.diff" || { echo "patch does not apply"; exit 2; }
trap 'git -C /repo checkout -- . ; git -C /repo clean -fdq' EXIT
fails=0
for m in util/semver util/maven util/pypi util/resolve; do
  out=$(cd /repo/$m && go test -vet=off -count=1 ./... 2>&1 | grep -v "^ok\|no test files")
  [ -n "$out" ] && { echo "SUITE FAILS in $m:"; echo "$out" | head -5; fails=1; }
done
[ $fails = 0 ] && echo "suite: passes"
for id in "${ids[@]}"; do
  ./check $id $tier 2>&1 | grep -E "^(OK|VIOLATION|INCONCLUSIVE)|observed=" | head -3 | cut -c1-400
done
