#!/usr/bin/env python3
"""Regenerates /verif/MANIFEST.json from the table below (run after editing)."""
import json
import os

ROOT = os.path.dirname(os.path.dirname(os.path.abspath(__file__)))

BASELINE_OFF = "for m in api/v3 api/v3alpha util/maven util/pypi util/resolve util/semver; do (cd /repo/$m && GOFLAGS=-mod=mod go test -json -vet=off -count=1 -timeout 25m ./...) || exit 1; done"

# id -> (technique, level text, level note, design ref)
CLAIMS = {
    "C01": (
        "property-based testing (rapid) of order laws + metamorphic relations over generated version triples; native Go fuzzing in the thorough tier",
        "Generated-input search: for each of the nine systems, triples of grammar-generated and neighbour-mutated versions are checked against the order laws (reflexive, antisymmetric, transitive, congruent), build-metadata invariance, call-history independence and sort-permutation invariance; wildcard patterns (1.x, 1.2.*, NuGet floating versions) mixed with the short and zero-padded spellings of their numbers are asked the same laws. Holds on everything explored; not a proof. Right level because the property is a universally quantified algebraic law over a string domain with an executable oracle.",
        "Trusts the generators' coverage of each version grammar (DESIGN §6); wildcard patterns are asked the laws in their own checks (four systems) and left out of the others; two listed Maven findings are stepped around by narrow classes (known_findings.txt).",
        "DESIGN.md §7 C01",
    ),
    "C09": (
        "property-based testing (rapid): pointwise set-semantics oracle over generated constraint pairs and boundary-derived candidate versions; native Go fuzzing in the thorough tier",
        "Generated-input search: pairs of grammar-generated constraints (Default, NPM, Cargo, Go) are united and intersected on freshly parsed operands and every candidate derived from the operands' bounds (plus random versions) is checked against the pointwise meaning: union = or, intersection = and (release versions; all versions under prerelease-inclusive matching through the set text), Empty() matches nothing, commutativity, || permutation invariance, argument not modified. Holds on everything explored; not a proof. Operands are also written in the set syntax (spans in any order, open lower bounds at a release), and the constraint a receiver was taken from must be unchanged after the operation.",
        "Trusts Constraint.MatchVersion of a single parsed constraint as the meaning of the operand (C03 owns that); three listed findings are stepped around by narrow classes (known_findings.txt).",
        "DESIGN.md §7 C09",
    ),
    "C10": (
        "property-based testing (rapid): round-trip oracle Parse(Canon(v)) over generated versions of nine systems; native Go fuzzing in the thorough tier",
        "Generated-input search: grammar-generated and neighbour-mutated versions of the nine systems are canonicalised, re-parsed, compared with the original and re-canonicalised (both showBuild values); equal canonical strings must compare equal; pypi.CanonVersion must agree with Parse+Canon and be the identity on unparsable text. Holds on everything explored; not a proof.",
        "Trusts the generators' coverage of each version grammar; RubyGems prerelease versions are outside the domain as the property states; wildcard patterns are round-tripped in their own checks (four systems).",
        "DESIGN.md §7 C10",
    ),
    "C02": (
        "differential property-based testing (rapid) against live reference implementations (node-semver, packaging, Rust semver, x/mod/semver, Maven ComparableVersion) and harness reference models (Gem::Version, NuGet SemVer2)",
        "Generated-input search with an independent oracle: grammar-generated, neighbour-mutated version pairs per ecosystem are ordered by the library and by the ecosystem's own implementation running side by side; orders must coincide on every pair both accept, and the reference's normal form must parse. Holds on everything explored; not a proof.",
        "Trusts the reference tools installed in the sandbox (node-semver 7.x cross-checked with 5.7.1, packaging 26.x cross-checked with pip's vendored 21.3, semver crate 1.0.28, x/mod 0.22, maven-artifact 3.8.7 on the sub-domain where it coincides with the documented 3.6.0/3.8.6 rules) and the two harness transcriptions (RubyGems, NuGet). Four listed findings are stepped around by narrow classes.",
        "DESIGN.md §7 C02, §4",
    ),
    "C11": (
        "property-based testing (rapid): round-trip oracle ParseSetConstraint(Set.String()) over generated constraints and boundary-derived versions; native Go fuzzing in the thorough tier",
        "Generated-input search: grammar-generated constraints (Default, NPM, Cargo, Go, NuGet) are printed as sets, parsed back with ParseSetConstraint, required to print identically and to match exactly the same boundary-derived and random versions under prerelease-inclusive matching. Holds on everything explored; not a proof.",
        "Trusts the generators' coverage of each constraint grammar; one listed finding (component equal to 2^63-2) is stepped around by a narrow class.",
        "DESIGN.md §7 C11",
    ),
    "C03": (
        "differential property-based testing (rapid) against live reference implementations (node-semver satisfies, Rust VersionReq, packaging SpecifierSet, Maven VersionRange) with boundary-derived candidates",
        "Generated-input search with an independent oracle: requirements from each ecosystem's range grammar are matched against candidates derived from the requirement's own bounds (plus random versions) by the library (Constraint.Match, MatchVersion, resolve.MatchRequirement) and by the ecosystem's implementation side by side; answers must coincide, and a requirement the reference shows non-empty must parse. Holds on everything explored; not a proof.",
        "Trusts the installed reference tools (node-semver 7.x cross-checked with 5.7.1, packaging 26.x cross-checked with 21.3, semver crate 1.0.28, maven-artifact 3.8.7 on '-'-qualifier candidates >= 0). Four listed findings are stepped around by narrow classes.",
        "DESIGN.md §7 C03, §4, §6.6",
    ),
    "C12": (
        "property-based testing (rapid) with exhaustive permutation of each generated list (<= 6 elements) against a harness reference model of filter + order",
        "Generated-input search: for NPM, Maven and PyPI a requirement (range, tag, exact string, junk) and a list of distinct version records are generated; for every permutation of the list (all n! up to 6 elements, 24 sampled beyond) resolve.SortVersions, resolve.MatchRequirement and LocalClient.MatchingVersions must return the model's answer: exactly the satisfying versions in the documented ascending order. Holds on everything explored; not a proof. PyPI lists may hold legacy strings that are not versions (range requirements only); records are re-added before the client is asked.",
        "Trusts Constraint.Match for single versions (C03 owns it) and the harness model written from the doc comments and the property statement.",
        "DESIGN.md §7 C12",
    ),
    "C14": (
        "model-based stateful property testing (rapid state machine) against a map-based reference model",
        "Generated histories of AddVersion calls (new and repeated keys, changed attributes and requirements, Deleted-flagged versions, three systems) are applied to a LocalClient and to a map model; after every step all four client calls are compared with the model over the whole (small) key space. Holds on everything explored; not a proof. Lookups are repeated with a Requirement-typed key that was never added.",
        "Trusts the harness model (written from the doc comments and the property statement) and Constraint.Match for single versions.",
        "DESIGN.md §7 C14",
    ),
    "C13": (
        "exhaustive enumeration of small rooted graphs under all renumberings + property-based testing (rapid) of random graphs under random renumbering/shuffle; metamorphic oracle plus a harness isomorphism labeller",
        "Exhaustive for every rooted digraph up to 3 nodes (quick) / 4 nodes and a 5-node slice (thorough) over a 3-name alphabet with 0-1 node errors against all renumberings of non-root nodes; sampled beyond; random graphs up to 40 nodes with duplicate versions, parallel edges, self-loops, cycles, unreachable nodes and node errors under random renumbering and edge/error shuffles. Canon must fail for both or give identical graphs, be idempotent, keep the root, and stay isomorphic to its input. Holds on everything explored; exhaustive only for the enumerated sizes. Lone-root graphs with several errors and self loops are included.",
        "Trusts the harness isomorphism labeller (colour refinement + individualise-and-refine) for the 'isomorphic to input' clause.",
        "DESIGN.md §7 C13, §6.8",
    ),
    "C19": (
        "model-based stateful property testing (rapid state machine) against a map model, plus text round trips through schema.New / schema.ParseResolve",
        "Generated histories of set/add/clone over pools of dep.Type and version.AttrSet values with arbitrary attribute values are compared after every step with a map model: accessors, Equal, Compare (antisymmetric, transitive, zero iff same content), clone independence; every resulting set with a text form is written in the schema's documented syntax and must parse back equal. Holds on everything explored; not a proof. A text is read a second time after the first result was modified.",
        "Trusts the map model; values containing the schema's own delimiters (| # @ on import lines, ': ' on graph lines, white space in the unquoted Attr|Version form) have no text form and are counted as excluded.",
        "DESIGN.md §7 C19",
    ),
    "C04": (
        "property-based testing (rapid) and native Go fuzzing of every enumerated entry point with a returns-or-errors oracle (recover, watchdog with confirmation, fatal-exit journal)",
        "Generated-input search: every enumerated parsing/matching entry point (semver x 9 systems, pypi, maven POM pipeline, schema/graph text, the three resolvers over universes with arbitrary requirement strings and markers, the API-backed client over a fake service) is called with raw bytes, grammar-derived strings and mutated valid inputs; each call runs under recover with a watchdog (10 s, confirmed at 100 s), and a process-fatal error is attributed through a last-input journal. Quick = rapid; thorough adds coverage-guided go test -fuzz per group. Holds on everything explored; not a proof.",
        "A call that is merely slow (Maven's quadratic trimming: 64 KiB of '-' parses in 12 s) is not reported as a hang; non-termination can only be suspected after the 100 s confirmation.",
        "DESIGN.md §7 C04",
    ),
    "C16": (
        "differential property-based testing (rapid) against pip's packaging library (26.x cross-checked with the vendored 21.3): requirement fields, name normalisation, and marker truth observed through resolution",
        "Generated-input search with an independent oracle: PEP 508 requirement strings are parsed by pypi.ParseDependency and by packaging.Requirement and compared field by field (canonical name, extras set, specifier set, marker normalised through str(Marker())); names through CanonPackageName vs canonicalize_name; marker expressions are placed on a dependency in a two-level universe with requested extras and the presence of the guarded node in the resolved graph is compared with packaging's Marker.evaluate in the library's fixed environment, evaluated per requested extra as pip does. Asserted only where the two packaging versions agree. Holds on everything explored; not a proof. A quarter of the markers are evaluated after a case/spacing variant of themselves in the same resolution.",
        "Trusts packaging 26.3 and pip's vendored 21.3 (where they agree) as the reference for the modelled pip; the library's target environment is read from its generated source; atoms are variable-vs-literal (either order). Two listed findings are stepped around by narrow classes.",
        "DESIGN.md §7 C16, §4.3",
    ),
    "C17": (
        "exhaustive enumeration of descriptors and source declarations (descriptor relation, source-vs-generated comparison with a harness proto3 parser, gRPC method tables) plus property-based wire round trips (rapid)",
        "The space is finite and enumerated completely: every service method, message, field, nested type, enum and enum value of v3 is compared with v3alpha; every declaration of both committed .proto files is compared both ways with the embedded descriptors of the generated Go packages; the gRPC ServiceDesc tables and FullMethodName constants are compared with the service descriptors; the resolver's system identifiers with the enum numbers. In addition random instances of every v3 message are marshalled and read back through the generated v3alpha types (no unknown fields, identical bytes and JSON). Go enum constants (read from the committed api.pb.go) and the self-description of every Go enum value are compared with the descriptor.",
        "Trusts the harness proto3 parser for the subset of the language the two files use, and google.golang.org/protobuf's reflection of the generated code.",
        "DESIGN.md §7 C17",
    ),
    "C15": (
        "property-based differential testing (rapid) against Maven's own model builder (maven-model-builder 3.8.7 in a JVM oracle server), plus a validity predicate over generated property tables for the interpolation clause",
        "Generated POM lineages (root + 0-4 ancestors + 0-3 imported BOMs with their own ancestors, BOMs importing BOMs; chained and overriding properties, project.version/groupId/parent.* built-ins with and without pom./project. prefix, placeholders in versions, scopes, optional flags, key fields and exclusions, dependencyManagement with import scope, declarations repeated between child and parent and between model and profiles, profiles activated by default, by JDK version/negation/range, by OS name/family/arch/version with negation, by property, and by two criteria at once) are rendered to pom.xml text read by both sides. The library pipeline (decode, MergeProfiles, MergeParent up the chain, Interpolate, ProcessDependencies with the same pipeline applied to imported BOMs) must produce the same dependencies and managed dependencies, field by field and in order, as the effective model Maven builds for the same files under java.version 11.0.8 and the library's OS settings. Interpolation over arbitrary property tables (cycles, self-reference, undefined keys, unterminated placeholders) must return, expand every resolvable placeholder exactly as a fix-point reference does, and otherwise yield the input with some placeholders expanded and the rest left in place. Holds on everything explored apart from the listed known findings. The optional flag is compared as a boolean; a second check (merge-isolation, no external oracle) merges one decoded parent into two children and compares each with the result of a parent decoded for it alone.",
        "Trusts maven-model-builder 3.8.7 (Debian) as Maven; lineages on which Maven reports an error, and lineages whose Maven result still contains an unresolved placeholder (Maven keeps such entries, the library documents that it drops them), are outside the domain and counted. Same-list duplicates, OS families Maven does not enumerate, key placeholders colliding after interpolation and one-digit JDK prefixes are not generated: they are recorded findings replayed from their witnesses.",
        "DESIGN.md §7 C15",
    ),
    "C18": (
        "property-based differential testing (rapid) of the API-backed client against a harness-built in-memory client behind an in-process fake Insights service, structural predicates over the four client calls, and concurrent batches under the Go race detector",
        "Generated npm registries (scoped names, shuffled version lists with is_default, all four dependency sections plus bundleDependencies, npm: aliases incl. scoped targets, bundle trees to depth 3 incl. copies installed under an alias and packages unknown to the registry) are served by a fake pb.InsightsClient. For every version: every bundled entry is a package with the mangled name, one concrete version carrying DerivedFrom, required by its bundling parent with a requirement that MatchingVersions resolves to exactly that version, and Version/Versions/Requirements/MatchingVersions agree; aliases become requirements on the real name with KnownAs. npm resolution through the APIClient equals (harness isomorphism labeller) resolution over a LocalClient loaded from the generated model by the harness. A -race binary resolves up to 16 roots concurrently through one APIClient: no race report, every graph equals the sequential one. Holds on everything explored; interleavings are sampled, not enumerated. The four calls must agree on a version a bundled package does not have.",
        "The in-memory side answers not-found for a package without versions, as the service does (LocalClient documents that it creates an empty entry instead). Bundle slots shadowing the bundling package's own name are not generated: they trigger the recorded npm resolver non-termination (C04 npm-bundle-reentry-nontermination); resolutions exceeding a 5 s watchdog are counted as excluded.",
        "DESIGN.md §7 C18",
    ),
    "C05": (
        "stateful property-based testing (rapid state machine over histories of resolutions) with a metamorphic fresh-twin oracle and client snapshots; concurrent batches under the Go race detector",
        "Generated universes (npm, Maven, PyPI) and histories of resolve / resolve-again / concurrent batches (up to 16) / permuted reloads on one client and resolver; every returned graph must equal (harness isomorphism labeller) the graph of a brand-new client and resolver, and everything the client reports (Versions, Requirements, MatchingVersions for every package, version and requirement string, order included) must be unchanged after every action. A second binary built with -race runs the concurrent histories; any race report is a violation. Holds on everything explored; interleavings are sampled, not enumerated.",
        "The harness does not own the Go scheduler: schedule independence is supported by the race detector (which reports any pair of unsynchronised conflicting accesses that both execute, whatever the timing) plus sequential determinism. Universes avoid the recorded npm alias-cycle non-termination by construction.",
        "DESIGN.md §7 C05, §10",
    ),
    "C06": (
        "property-based testing (rapid) with validity predicates over the returned graph and the final install tree (verif hook); requirement satisfaction tabulated by node-semver",
        "Generated npm universes and every root are resolved; six predicates are checked on each result: edge targets satisfy their requirements (node-semver 7.x cross-checked with 5.7.1), every surviving requirement has an edge or a node error, all nodes reachable, fresh installs pick latest / highest non-deprecated / highest, no directory of the install tree holds two entries of one name, and Node's walk-up lookup from every dependent lands on the edge's target. Holds on everything explored; not a proof. A Resolve that fails on a universe whose root exists counts as a violation (unresolvable requirements are node errors).",
        "Needs the verif hook (install tree). Trusts node-semver for satisfaction. Like npm 6 (and as the repository's alias tests pin), an entry found under the dependency's name resolves the requirement when its version satisfies the range, whatever package it is. Universes avoid the recorded npm alias-cycle non-termination by construction; universes where latest sits on a prerelease while releases exist assert clause 1 only (counted).",
        "DESIGN.md §7 C06, §3.5",
    ),
    "C07": (
        "property-based testing (rapid) against an independent breadth-first reference model (exact, range-free universes) and validity predicates with Maven's VersionRange as range oracle (all universes)",
        "Generated Maven universes and roots are resolved; on universes without ranges the graph must equal (harness isomorphism labeller) the graph of a reference model written from the statement: nearest declaration wins, root dependencyManagement overrides transitive versions, exclusions accumulate along the creating path, test/optional/provided only from the root, war/ear/rar not traversed; on all universes predicates are checked: one version per artifact key, every range edge points inside its range (maven-artifact VersionRange), no edge to an excluded artifact, no transitive test/optional/provided edge, war/ear/rar-only nodes have no out-edges. Holds on everything explored; not a proof. On all universes nine predicates are checked, among them that every transitive edge to an artifact the root manages carries the managed version and that the selected version is a candidate of the documented preference between soft versions and ranges (tolerant of requirements made by versions that are no longer in the graph); the order of preference itself is decided exactly, edge by edge, against a model of the documented rule on universes whose traversal cannot change between re-resolutions (single-version carriers, multi-version leaves). One recorded finding (two versions of one artifact when a node is shared between two types of it) is recognised by its mechanism and counted.",
        "Trusts the harness reference model and maven-artifact 3.8.7's VersionRange. The property speaks of returned graphs: resolutions that end in an error (missing version, or a dependency back on the root's own artifact at another version) are counted as outside it.",
        "DESIGN.md §7 C07, §12.2, §12.6",
    ),
    "C08": (
        "property-based testing (rapid) with validity predicates over the returned graph; specifier satisfaction and pip's prerelease rule computed by packaging (SpecifierSet.filter); marker truth known by construction",
        "Generated PyPI universes and roots are resolved; whenever the graph carries no error: one node per package with the root never replaced, every requirement whose marker is true (given the extras requested on the incoming edges) has an edge to the selected version, that version satisfies the requirement (prereleases allowed) and lies in packaging's SpecifierSet(conjunction of all specifiers on the package).filter(all versions) - pip's prerelease rule -, requirements with false markers have no edge, every edge stems from a requirement, every node is reachable. Asserted where packaging 26.x and 21.3 agree. Holds on everything explored; not a proof.",
        "Trusts packaging for specifier semantics. Until the graph construction was repaired (e91457d) edges left by a replaced pin were tolerated; they are asserted now. Two listed findings are stepped around by narrow classes.",
        "DESIGN.md §7 C08, §12.2, §12.6",
    ),
}

NOT_YET = "check under construction in this session (not yet claimed)"


def main():
    props = [json.loads(l) for l in open(os.path.join(ROOT, "properties.jsonl")) if l.strip()]
    checks, na = [], []
    for p in props:
        pid = p["id"]
        if pid in CLAIMS and os.path.isdir(os.path.join(ROOT, "harness", pid.lower())):
            tech, text, note, ref = CLAIMS[pid]
            checks.append({
                "property_id": pid,
                "quick_cmd": "./check %s quick" % pid,
                "thorough_cmd": "./check %s thorough" % pid,
                "evidence_file": "evidence/%s.json" % pid,
                "replay_cmd_template": "./check %s --replay {path}" % pid,
                "engine": "rapid-harness",
                "level_claimed": {"category": "exploration", "text": text, "design_ref": ref},
                "level_note": note,
                "technique": tech,
            })
        else:
            na.append({"property_id": pid, "reason": NOT_YET})
    hooks_commits = []
    hc = os.path.join(ROOT, "hooks_commits.txt")
    if os.path.exists(hc):
        hooks_commits = [l.split()[0] for l in open(hc) if l.strip() and not l.startswith("#")]
    m = {
        "version": 1,
        "setup_cmd": "./check setup",
        "hooks": {
            "guard": "verif",
            "enable": "go test -tags verif (the driver builds every property binary with -tags verif)",
            "baseline_off_cmd": BASELINE_OFF,
            "source_commits": hooks_commits,
            "add_only": True,
        },
        "engines": [
            {
                "name": "rapid-harness",
                "path": "harness/",
                "serves_properties": [c["property_id"] for c in checks],
                "kind_free_text": "Go module of property-based tests (pgregory.net/rapid v1.3.0, native go test -fuzz in the thorough tier) with differential oracle servers under oracles/; driven by ./check, which rebuilds every binary from /repo's working tree",
            }
        ],
        "checks": checks,
        "notes": "Exit codes: 0 held on everything explored (KNOWN-FINDING lines allowed), 1 VIOLATION, 2 inconclusive (build failure, timeout, worker death). VERIF_SEED selects the seed (0 is remapped to 1).",
        "not_applicable": na,
    }
    with open(os.path.join(ROOT, "MANIFEST.json"), "w") as f:
        json.dump(m, f, indent=1)
        f.write("\n")


if __name__ == "__main__":
    main()
