// Line-protocol oracle over maven-artifact: ComparableVersion and VersionRange.
import java.io.*;
import org.apache.maven.artifact.versioning.*;

public class Mvn {
    public static void main(String[] args) throws Exception {
        BufferedReader in = new BufferedReader(new InputStreamReader(System.in, "UTF-8"));
        PrintStream out = new PrintStream(new FileOutputStream(FileDescriptor.out), false, "UTF-8");
        String line;
        while ((line = in.readLine()) != null) {
            String[] f = line.split("\t", -1);
            String r;
            try {
                switch (f[0]) {
                case "version":
                    r = "maven-artifact " + String.valueOf(ComparableVersion.class.getPackage().getImplementationVersion());
                    break;
                case "cmp": {
                    int c = new ComparableVersion(f[1]).compareTo(new ComparableVersion(f[2]));
                    r = c < 0 ? "-1" : (c > 0 ? "1" : "0");
                    break;
                }
                case "canon":
                    r = new ComparableVersion(f[1]).getCanonical();
                    break;
                case "range": {
                    VersionRange vr = VersionRange.createFromVersionSpec(f[1]);
                    r = vr.getRecommendedVersion() != null ? "soft" : "hard";
                    break;
                }
                case "containsm": {
                    VersionRange vr = VersionRange.createFromVersionSpec(f[1]);
                    if (vr.getRecommendedVersion() != null) { r = "soft"; break; }
                    StringBuilder sb = new StringBuilder();
                    ComparableVersion zero = new ComparableVersion("0");
                    for (int i = 2; i < f.length; i++) {
                        // 'b' marks a candidate ordered below "0" (outside the property's quantifier)
                        if (new ComparableVersion(f[i]).compareTo(zero) < 0) { sb.append('b'); continue; }
                        sb.append(vr.containsVersion(new DefaultArtifactVersion(f[i])) ? '1' : '0');
                    }
                    r = sb.length() == 0 ? "-" : sb.toString();
                    break;
                }
                case "contains": {
                    VersionRange vr = VersionRange.createFromVersionSpec(f[1]);
                    if (vr.getRecommendedVersion() != null) { r = "soft"; break; }
                    r = vr.containsVersion(new DefaultArtifactVersion(f[2])) ? "1" : "0";
                    break;
                }
                default:
                    r = "E";
                }
            } catch (Throwable e) {
                r = "E";
            }
            out.print(r.replace('\n', ' '));
            out.print('\n');
            out.flush();
        }
    }
}
