#!/bin/bash
# Builds the oracle servers offline and records the tool paths in paths.json.
# Missing tools are recorded as "" — the affected sub-checks then replay their
# committed reference-labelled corpus instead of guessing.
set -u
cd "$(dirname "$0")"
mkdir -p bin classes
find_first() { for p in "$@"; do for q in $p; do [ -x "$q" ] && { echo "$q"; return; }; done; done; echo ""; }
NODE=$(find_first "$(command -v node 2>/dev/null)" "/root/.nvm/versions/node/v20*/bin/node" "/root/.nvm/versions/node/v18*/bin/node" "/root/.nvm/versions/node/v22*/bin/node" /usr/bin/node)
SEMVER5=""
for d in /root/.nvm/versions/node/v10*/lib/node_modules/npm/node_modules/semver /root/.nvm/versions/node/v12*/lib/node_modules/npm/node_modules/semver /root/.nvm/versions/node/v14*/lib/node_modules/npm/node_modules/semver; do
  [ -f "$d/package.json" ] && { SEMVER5="$d"; break; }
done
PYVT=$(find_first "$(command -v python3-vt 2>/dev/null)" /opt/veriftools/pyvenv/bin/python)
PYSYS=""
for p in "$(command -v python3 2>/dev/null)" /root/.pyenv/shims/python3 /usr/bin/python3; do
  [ -n "$p" ] && [ -x "$p" ] && "$p" -c 'import pip._vendor.packaging' 2>/dev/null && { PYSYS="$p"; break; }
done
JAVA=$(find_first "$(command -v java 2>/dev/null)" /usr/bin/java)
JAVAC=$(find_first "$(command -v javac 2>/dev/null)" /usr/bin/javac)
CARGO=$(find_first "$(command -v cargo 2>/dev/null)" /root/.cargo/bin/cargo)
MVNLIB=/usr/share/maven/lib
MVNCP=""
if [ -n "$JAVAC" ] && [ -d "$MVNLIB" ]; then
  MVNCP="$MVNLIB/*"
  "$JAVAC" -nowarn -cp "$MVNCP" -d classes Mvn.java 2>&1 | grep -v '^Note:' || true
  [ -f Eff.java ] && { "$JAVAC" -nowarn -cp "$MVNCP" -d classes Eff.java 2>&1 | grep -v '^Note:' || true; }
  [ -f classes/Mvn.class ] || MVNCP=""
fi
RSBIN=""
if [ -n "$CARGO" ]; then
  (cd rs && CARGO_NET_OFFLINE=true "$CARGO" build --offline --release -q 2>&1 | tail -5)
  [ -x rs/target/release/semver-oracle ] && { cp rs/target/release/semver-oracle bin/semver-oracle; RSBIN="$PWD/bin/semver-oracle"; }
fi
cat > paths.json <<JSON
{"node": "$NODE", "semver5": "$SEMVER5", "python_vt": "$PYVT", "python_sys": "$PYSYS", "java": "$JAVA", "maven_cp": "$MVNCP", "classes": "$PWD/classes", "rust_bin": "$RSBIN", "dir": "$PWD"}
JSON
cat paths.json
exit 0
