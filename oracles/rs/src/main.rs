// Line-protocol oracle over the Rust semver crate. Request: op \t args...
use semver::{Version, VersionReq};
use std::io::{self, BufRead, Write};

fn main() {
    let stdin = io::stdin();
    let stdout = io::stdout();
    let mut out = stdout.lock();
    for line in stdin.lock().lines() {
        let line = match line { Ok(l) => l, Err(_) => break };
        let f: Vec<&str> = line.split('\t').collect();
        let r: String = match f[0] {
            "version" => "semver-1.0.28".to_string(),
            "ver" => match Version::parse(f[1]) { Ok(v) => v.to_string(), Err(_) => "E".to_string() },
            "cmp" => match (Version::parse(f[1]), Version::parse(f[2])) {
                (Ok(a), Ok(b)) => match a.cmp_precedence(&b) {
                    std::cmp::Ordering::Less => "-1".to_string(),
                    std::cmp::Ordering::Equal => "0".to_string(),
                    std::cmp::Ordering::Greater => "1".to_string(),
                },
                _ => "E".to_string(),
            },
            "req" => match VersionReq::parse(f[1]) { Ok(r) => r.to_string(), Err(_) => "E".to_string() },
            "matchesm" => match VersionReq::parse(f[1]) {
                Ok(r) => {
                    let mut o = String::new();
                    for v in &f[2..] {
                        match Version::parse(v) {
                            Ok(v) => o.push(if r.matches(&v) { '1' } else { '0' }),
                            Err(_) => o.push('x'),
                        }
                    }
                    if o.is_empty() { "-".to_string() } else { o }
                }
                Err(_) => "E".to_string(),
            },
            "matches" => match (VersionReq::parse(f[1]), Version::parse(f[2])) {
                (Ok(r), Ok(v)) => if r.matches(&v) { "1".to_string() } else { "0".to_string() },
                _ => "E".to_string(),
            },
            _ => "E".to_string(),
        };
        writeln!(out, "{}", r).unwrap();
        out.flush().unwrap();
    }
}
