// Line-protocol oracle over maven-model-builder: effective model of a POM lineage.
//
// request:  build \t rootKey \t key1 \t base64(pom1) \t key2 \t base64(pom2) ...
//           (keys are groupId:artifactId:version; the root's POM must be among them)
// reply:    OK \t base64(text)   text = one line per dependency, fields joined by \u001f:
//                D|M, groupId, artifactId, version, type, classifier, scope, optional, exclusions (g:a joined by ,)
//                followed by lines "W <warning>" for non-fatal problems
//           ERR \t first problem    when the model builder reports an error
import java.io.*;
import java.nio.charset.StandardCharsets;
import java.util.*;
import org.apache.maven.model.*;
import org.apache.maven.model.building.*;
import org.apache.maven.model.resolution.*;

public class Eff {
    static Map<String, String> poms = new HashMap<>();

    static class MemResolver implements ModelResolver {
        public ModelSource resolveModel(String g, String a, String v) throws UnresolvableModelException {
            String x = poms.get(g + ":" + a + ":" + v);
            if (x == null) throw new UnresolvableModelException("not in the case", g, a, v);
            return new StringModelSource(x, g + ":" + a + ":" + v);
        }
        public ModelSource resolveModel(Parent p) throws UnresolvableModelException {
            return resolveModel(p.getGroupId(), p.getArtifactId(), p.getVersion());
        }
        public ModelSource resolveModel(Dependency d) throws UnresolvableModelException {
            return resolveModel(d.getGroupId(), d.getArtifactId(), d.getVersion());
        }
        public void addRepository(Repository r) {}
        public void addRepository(Repository r, boolean replace) {}
        public ModelResolver newCopy() { return this; }
    }

    static String nz(String s) { return s == null ? "" : s; }

    static void emit(StringBuilder sb, String kind, Dependency d) {
        StringBuilder ex = new StringBuilder();
        for (Exclusion e : d.getExclusions()) {
            if (ex.length() > 0) ex.append(',');
            ex.append(nz(e.getGroupId())).append(':').append(nz(e.getArtifactId()));
        }
        String[] f = {kind, nz(d.getGroupId()), nz(d.getArtifactId()), nz(d.getVersion()), nz(d.getType()), nz(d.getClassifier()), nz(d.getScope()), nz(d.getOptional()), ex.toString()};
        sb.append(String.join("\u001f", f)).append('\n');
    }

    public static void main(String[] args) throws Exception {
        BufferedReader in = new BufferedReader(new InputStreamReader(System.in, "UTF-8"));
        PrintStream out = new PrintStream(new FileOutputStream(FileDescriptor.out), false, "UTF-8");
        ModelBuilder builder = new DefaultModelBuilderFactory().newInstance();
        Properties sys = new Properties();
        sys.putAll(System.getProperties());
        sys.setProperty("java.version", System.getProperty("verif.jdk", "11.0.8"));
        String line;
        while ((line = in.readLine()) != null) {
            String[] f = line.split("\t", -1);
            String r;
            try {
                switch (f[0]) {
                case "version":
                    r = "maven-model-builder " + String.valueOf(ModelBuilder.class.getPackage().getImplementationVersion()) + " jdk=" + sys.getProperty("java.version") + " os=" + System.getProperty("os.name") + "/" + System.getProperty("os.arch") + "/" + System.getProperty("os.version");
                    break;
                case "build": {
                    poms.clear();
                    for (int i = 2; i + 1 < f.length; i += 2) {
                        poms.put(f[i], new String(Base64.getDecoder().decode(f[i + 1]), StandardCharsets.UTF_8));
                    }
                    String xml = poms.get(f[1]);
                    if (xml == null) { r = "ERR\troot not supplied"; break; }
                    DefaultModelBuildingRequest req = new DefaultModelBuildingRequest();
                    req.setModelSource(new StringModelSource(xml, f[1]));
                    req.setModelResolver(new MemResolver());
                    req.setValidationLevel(ModelBuildingRequest.VALIDATION_LEVEL_MINIMAL);
                    req.setProcessPlugins(false);
                    req.setTwoPhaseBuilding(false);
                    req.setSystemProperties(sys);
                    try {
                        ModelBuildingResult res = builder.build(req);
                        Model m = res.getEffectiveModel();
                        StringBuilder sb = new StringBuilder();
                        for (Dependency d : m.getDependencies()) emit(sb, "D", d);
                        if (m.getDependencyManagement() != null)
                            for (Dependency d : m.getDependencyManagement().getDependencies()) emit(sb, "M", d);
                        for (ModelProblem p : res.getProblems()) sb.append("W ").append(p.getSeverity()).append(' ').append(p.getMessage().replace('\n', ' ')).append('\n');
                        r = "OK\t" + Base64.getEncoder().encodeToString(sb.toString().getBytes(StandardCharsets.UTF_8));
                    } catch (ModelBuildingException e) {
                        String msg = e.getProblems().isEmpty() ? String.valueOf(e.getMessage()) : e.getProblems().get(0).getSeverity() + " " + e.getProblems().get(0).getMessage();
                        r = "ERR\t" + msg.replace('\n', ' ').replace('\t', ' ');
                    }
                    break;
                }
                default:
                    r = "E";
                }
            } catch (Throwable e) {
                r = "E\t" + String.valueOf(e).replace('\n', ' ').replace('\t', ' ');
            }
            out.print(r);
            out.print('\n');
            out.flush();
        }
    }
}
