"""Line-protocol oracle over pip's packaging library. Runs under python3-vt
(packaging 26.x) and under the system python with VERIF_VENDORED=1
(pip._vendor.packaging 21.3). Request: op \t args...; reply: one line."""
import json
import os
import sys

if os.environ.get("VERIF_VENDORED"):
    from pip._vendor import packaging
    from pip._vendor.packaging.version import Version, InvalidVersion
    from pip._vendor.packaging.specifiers import SpecifierSet, InvalidSpecifier
    from pip._vendor.packaging.requirements import Requirement, InvalidRequirement
    from pip._vendor.packaging.markers import Marker, InvalidMarker, UndefinedComparison, UndefinedEnvironmentName
    from pip._vendor.packaging.utils import canonicalize_name
else:
    import packaging
    from packaging.version import Version, InvalidVersion
    from packaging.specifiers import SpecifierSet, InvalidSpecifier
    from packaging.requirements import Requirement, InvalidRequirement
    from packaging.markers import Marker, InvalidMarker, UndefinedComparison, UndefinedEnvironmentName
    from packaging.utils import canonicalize_name


def handle(op, a):
    if op == "version":
        return packaging.__version__
    if op == "ver":
        return str(Version(a[0]))
    if op == "cmp":
        x, y = Version(a[0]), Version(a[1])
        return "-1" if x < y else ("1" if x > y else "0")
    if op == "spec":
        SpecifierSet(a[0])
        return "ok"
    if op == "contains":
        return "1" if SpecifierSet(a[0]).contains(Version(a[1])) else "0"
    if op == "containsm":
        ss = SpecifierSet(a[0])
        out = ""
        for v in a[1:]:
            try:
                out += "1" if ss.contains(Version(v)) else "0"
            except InvalidVersion:
                out += "x"
        return out or "-"
    if op == "containspre":
        return "1" if SpecifierSet(a[0]).contains(Version(a[1]), prereleases=True) else "0"
    if op == "filter":
        vs = json.loads(a[1])
        return json.dumps([str(v) for v in SpecifierSet(a[0]).filter([Version(v) for v in vs])])
    if op == "filterraw":
        vs = json.loads(a[1])
        return json.dumps(list(SpecifierSet(a[0]).filter(vs)))
    if op == "req":
        r = Requirement(a[0])
        if r.url:
            return "URL"
        return json.dumps({
            "name": r.name,
            "canon": canonicalize_name(r.name),
            "extras": sorted(r.extras),
            "spec": sorted([s.operator, s.version] for s in r.specifier),
            "marker": str(r.marker) if r.marker is not None else "",
        })
    if op == "canon":
        return canonicalize_name(a[0])
    if op == "markerstr":
        return str(Marker(a[0]))
    if op == "marker":
        env = json.loads(a[1])
        return "1" if Marker(a[0]).evaluate(env) else "0"
    return "E"


def main():
    out = sys.stdout
    for line in sys.stdin:
        line = line.rstrip("\n")
        # A line starting with "J" carries the fields as a JSON array, so that
        # they may contain tabs.
        f = json.loads(line[1:]) if line.startswith("J[") else line.split("\t")
        try:
            r = handle(f[0], f[1:])
        except (InvalidVersion, InvalidSpecifier, InvalidRequirement, InvalidMarker, UndefinedComparison, UndefinedEnvironmentName) as e:
            r = "E"
        except Exception as e:  # any other failure of the reference is "rejects"
            r = "E:" + type(e).__name__
        out.write(r.replace("\n", " ") + "\n")
        out.flush()


main()
