// Line-protocol oracle: node-semver as bundled with npm 10 (7.x) and, when
// present, the 5.7.1 that npm 6 shipped. Request: op \t args...; reply: one line
// "<answer of newest> \t <answer of 5.x or -> ".
const path = require('path');
const fs = require('fs');
function load(p) { try { return require(p); } catch (e) { return null; } }
const nodeDir = path.dirname(process.execPath);
const s7 = load(path.join(nodeDir, '..', 'lib', 'node_modules', 'npm', 'node_modules', 'semver'));
let s5 = null;
for (const p of (process.env.VERIF_SEMVER5 || '').split(':')) { if (p && !s5) s5 = load(p); }
if (!s7) { console.log('FATAL no semver'); process.exit(3); }
function answer(s, op, a) {
  try {
    switch (op) {
      case 'version': return s.SEMVER_SPEC_VERSION + '/' + (s === s7 ? 'new' : 'old');
      case 'valid': { const v = s.valid(a[0]); return v === null ? 'null' : v; }
      case 'cmp': return String(s.compare(a[0], a[1]));
      case 'validRange': { const r = s.validRange(a[0]); return r === null ? 'null' : (r === '' ? '<empty-string>' : r); }
      case 'satm': {
        if (s.validRange(a[0]) === null) return 'E';
        let out = '';
        for (const v of a.slice(1)) { out += (s.valid(v) === null) ? 'x' : (s.satisfies(v, a[0]) ? '1' : '0'); }
        return out === '' ? '-' : out;
      }
      case 'sat': { if (s.validRange(a[1]) === null) return 'E'; if (s.valid(a[0]) === null) return 'E'; return s.satisfies(a[0], a[1]) ? '1' : '0'; }
    }
  } catch (e) { return 'E'; }
  return 'E';
}
const rl = require('readline').createInterface({ input: process.stdin, terminal: false });
rl.on('line', (line) => {
  const f = line.split('\t');
  const op = f[0], a = f.slice(1);
  const r7 = answer(s7, op, a);
  const r5 = s5 ? answer(s5, op, a) : '-';
  process.stdout.write(r7 + '\t' + r5 + '\n');
});
